"""Kani units: real function text spliced (by tools/extract) into a stand-alone crate, external scorers stubbed."""
import json, os, re, shutil, subprocess, time

from . import compose as C
from . import driver as D

VERIF = C.VERIF


def splice(tmpl):
    """Replace /*@EXTRACT file :: sel :: sel @*/ markers by the item / function text from the working tree."""
    reqs, marks = [], re.findall(r"/\*@EXTRACT (.*?) @\*/", tmpl)
    for k, m in enumerate(marks):
        parts = [p.strip() for p in m.split("::")]
        sel = []
        for p in parts:
            if re.match(r"^(mod|impl|trait|fn|struct|enum|type|const|macro)\s", p) or not sel:
                sel.append(p)
            else:
                sel[-1] += "::" + p
        reqs.append({"id": str(k), "file": C.resolve_file(sel[0]), "path": sel[1:], "edits": [], "raw": True})
    res = C.run_extract(reqs)
    log = []
    for k, m in enumerate(marks):
        r = res[str(k)]
        if not r.get("ok"):
            raise C.ExtractionError(f"kani splice `{m}`: {r.get('error')}")
        text = (r["sig"] + " " + r["body"]) if r["kind"] == "fn" else r["text"]
        tmpl = tmpl.replace(f"/*@EXTRACT {m} @*/", text, 1)
        log.append({"spliced": m, "rewrites": r.get("log", [])})
    return tmpl, log


def run_kani_unit(name, crate, tmpl_file, harnesses, bounded_note, timeout=900):
    u = D.UnitResult(name)
    u.meta = {"static": True, "kani": True, "bounded": bounded_note}
    t0 = time.time()
    src_dir = os.path.join(VERIF, "kani", crate)
    work = os.path.join(C.BUILD, "kani", name)
    os.makedirs(os.path.join(work, "src"), exist_ok=True)
    shutil.copy(os.path.join(src_dir, "Cargo.toml"), os.path.join(work, "Cargo.toml"))
    for sub in os.listdir(src_dir):
        if os.path.isdir(os.path.join(src_dir, sub)):
            shutil.copytree(os.path.join(src_dir, sub), os.path.join(work, sub), dirs_exist_ok=True)
    try:
        text, log = splice(open(os.path.join(src_dir, tmpl_file)).read())
    except C.ExtractionError as e:
        u.status, u.reason = "undecided", "extraction: " + str(e)
        return u
    open(os.path.join(work, "src", "lib.rs"), "w").write(text)
    u.path = os.path.join(work, "src", "lib.rs")
    u.extract_log = log
    env = dict(os.environ, CARGO_NET_OFFLINE="true")
    for h in harnesses:
        cmd = ["cargo", "kani", "--harness", h, "-Z", "concrete-playback", "--concrete-playback=print"]
        u.cmd = "cd build/kani/%s && CARGO_NET_OFFLINE=true %s" % (name, " ".join(cmd))
        try:
            p = subprocess.run(cmd, cwd=work, capture_output=True, text=True, env=env, timeout=timeout)
        except subprocess.TimeoutExpired:
            u.status, u.reason = "undecided", f"kani timed out on {h}"
            return u
        out = p.stdout + p.stderr
        ok = "VERIFICATION:- SUCCESSFUL" in out
        failed = "VERIFICATION:- FAILED" in out
        if not ok and not failed:
            u.status, u.reason = "undecided", f"kani did not produce a verdict for {h}: " + out[-600:]
            return u
        m = re.search(r"Verification Time: ([\d.]+)s", out)
        u.obligations.append({"id": f"{name}::{h}", "fn": h, "ok": ok, "time_us": int(float(m.group(1)) * 1e6) if m else 0, "rlimit": 0, "mode": "kani", "extracted": True})
        if failed:
            playback = "\n".join(re.findall(r"(?s)Concrete playback unit test for `.*?```\n(.*?)```", out)) or ""
            checks = re.findall(r"Failed Checks: (.*)", out)
            u.failures.append({"fn": h, "fn_id": None, "tags": [], "message": "kani harness failed: " + "; ".join(checks[:3]), "text": "; ".join(checks[:3]), "line": 0, "src": "",
                               "rlimit": False, "rendered": out[-3000:], "counterexample": playback, "obligation": f"{name}::{h}::" + "; ".join(checks[:2])})
            u.status = "violation"
    u.wall_s = time.time() - t0
    u.trusted = ["kani-stub:strsim::jaro_winkler (symbolic scores in [0,1], not NaN)" if "scorer" in name else "kani-stub:did_you_mean (symbolic suggestion)"]
    return u
