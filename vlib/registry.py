"""Which units decide which property."""
PROPS = {
    "C05": {
        "units": ["c05_accumulator", "l1_error_api"],
        "assumptions": [
            "std::thread::panicking() is read once and modelled as an uninterpreted boolean",
            "Vec::extend appends exactly what the iterator yields, in order (std contract, assumed as vec_extend)",
            "panic!() inside Drop is encoded as a returned DropOutcome value (rule R9) so that 'it panics' is a postcondition",
            "trait methods (Default::default, Extend::extend, Drop::drop) are verified as inherent functions with the same body (rule R15)",
        ],
        "not_covered": ["the panic message text (R11)", "interaction of the drop bomb with real unwinding"],
        "level_text": "Every Accumulator method body (sliced from core/src/error/mod.rs each run) is proved by Verus against a ghost-sequence "
                      "contract for all prior states, so every finite operation history is covered by induction over the per-method contracts "
                      "(lemma_history); drop's panic is a proved postcondition via panic-as-value.",
        "level_note": "Trusted: Verus/Z3; rewrite rules R1/R2/R9/R15 (DESIGN.md s4); Vec::extend and thread::panicking as assumed contracts; panic text not checked.",
        "design_ref": "DESIGN.md section 6 C05",
    },
}

NOT_APPLICABLE = {
    "C20": "compilation success of emitted impls in a downstream crate is decided by rustc's type checker over generated programs; "
           "no pre/postcondition on darling's functions states or decides it, and sampling compile runs is a different technique family",
}
