"""Which units decide which property."""
PROPS = {
    "C01": {
        "units": [],
        "gen": [{"corpus": "structs", "mode": "success"}],
        "classes": r"postcondition|invariant|post-condition of closure|assertion failed",
        "exclude_text": r"strs\(__alts@\)",
        "level_text": "For each receiver of the corpus the from_list emitted by the working tree's derive is proved (Verus, all item lists of any length/order) "
                      "to return exactly the value the declaration prescribes whenever the input is mistake-free: oracle fin(run(items)) generated from the descriptor "
                      "(effective names, with/map/and_then, multiple in order, default chain, flatten hand-off, allow_unknown_fields, container map/and_then).",
        "level_note": "Proof per program; programs sampled (quick 14, thorough ~250 incl. all ordered pairs of field options). Trusted: see evidence.assumptions (client-view FromMeta, opaque syn, rewrite rules).",
        "design_ref": "DESIGN.md section 6 C01",
        "assumptions": "L3",
        "not_covered": ["element-level traits' from_derive_input etc. are covered under C08/C16", "L2 with_inherited/as_codegen_field are exercised only through the emitted code, not separately contracted"],
    },
    "C02": {
        "units": ["l1_error_api", "c05_accumulator"],
        "gen": [{"corpus": "structs", "mode": "err", "unit_span": True}],
        "classes": r"postcondition|invariant|post-condition of closure",
        "level_text": "Same emitted functions proved equal to the full oracle: Err(e_multiple(mistakes)) with one error per unknown name, repeat, literal item, "
                      "failed conversion (located at name / name[i]), flatten failure and missing field, in order; Ok iff none. Span identity is abstracted (single-valued Span) so only C03 sees which span.",
        "level_note": "Proof per program; programs sampled. Accumulator/Error::multiple contracts proved on real bodies. Body-layer conversion (Data/Fields::try_from) and maps are under C16/C14.",
        "design_ref": "DESIGN.md section 6 C02",
        "assumptions": "L3",
    },
    "C03": {
        "units": ["l1_error_api"],
        "gen": [{"corpus": "structs", "mode": "full"}],
        "classes": r"postcondition|invariant|post-condition of closure",
        "level_text": "with_span is proved first-writer-wins on the real body (r == e_with_span(self, span(node))); the emitted parsers are proved equal to an oracle in which "
                      "every unknown/duplicate/literal/conversion error carries the span of the offending item itself and missing-field errors none, with Span opaque (so attaching another node's span fails).",
        "level_note": "'inside the item' is modelled as equality with the span of that node (geometric containment is syn's). Proof per program; programs sampled. Span hand-down in flatten and trait default methods: see not_covered until those units land.",
        "design_ref": "DESIGN.md section 6 C03",
        "assumptions": "L3",
        "not_covered": ["Error::into_vec span hand-down (F5)", "FromMeta default methods' span attachment", "enum receivers' spans (F7)"],
    },
    "C07": {
        "units": [],
        "gen": [{"corpus": "structs", "mode": "full"}],
        "classes": r"precondition not satisfied|overflow|underflow|division by zero|index out of|unreachable|panic",
        "level_text": "Every expect()/unwrap/index/arithmetic site and every accumulator-armed precondition in the emitted parsers is a proved Verus precondition for all inputs "
                      "(e.g. Option::expect requires Some; finish requires armed).",
        "level_note": "Proof per program; programs sampled. syn/std parsers and user converters assumed not to panic.",
        "design_ref": "DESIGN.md section 6 C07",
        "assumptions": "L3",
    },
    "C04": {
        "units": ["c04_error_tree", "l1_error_api"],
        "level_text": "ErrorKind::len / Error::len / at / prepend_at / into_vec / flatten / multiple / new are proved on their real bodies against a tree oracle over the real datatype "
                      "(leaves, flat with full outer-to-inner paths); count = number of leaves, flatten yields exactly the leaves in order, idempotence and len(flatten)=len are proved lemmas.",
        "level_note": "Trusted: rewrite R2 (iterator adapter chains in len/into_vec replaced by their defining loops), Vec/String clone and extend contracts, Display text (R11). Not covered: Display rendering, IntoIterator, syn::Error conversion.",
        "design_ref": "DESIGN.md section 6 C04",
        "assumptions": [
            "R2: `items.iter().map(Error::len).sum()` and `errors.into_iter().flat_map(|error| ..).collect()` are replaced by their defining loops; the closure body is kept verbatim",
            "usize sums in len() need leaves <= usize::MAX (stated as a precondition)",
            "Vec<String>::clone yields an equal vector; Vec::extend(Vec) appends in order (std, assumed)",
        ],
        "not_covered": ["Display for Error/ErrorKind (message text)", "IntoIterator for Error (std iterator types)", "From<Error> for syn::Error / write_errors (one diagnostic per leaf)"],
    },
    "C05": {
        "units": ["c05_accumulator", "l1_error_api"],
        "assumptions": [
            "std::thread::panicking() is read once and modelled as an uninterpreted boolean",
            "Vec::extend appends exactly what the iterator yields, in order (std contract, assumed as vec_extend)",
            "panic!() inside Drop is encoded as a returned DropOutcome value (rule R9) so that 'it panics' is a postcondition",
            "trait methods (Default::default, Extend::extend, Drop::drop) are verified as inherent functions with the same body (rule R15)",
        ],
        "not_covered": ["the panic message text (R11)", "interaction of the drop bomb with real unwinding"],
        "level_text": "Every Accumulator method body (sliced from core/src/error/mod.rs each run) is proved by Verus against a ghost-sequence "
                      "contract for all prior states, so every finite operation history is covered by induction over the per-method contracts "
                      "(lemma_history); drop's panic is a proved postcondition via panic-as-value.",
        "level_note": "Trusted: Verus/Z3; rewrite rules R1/R2/R9/R15 (DESIGN.md s4); Vec::extend and thread::panicking as assumed contracts; panic text not checked.",
        "design_ref": "DESIGN.md section 6 C05",
    },
}

L3_ASSUMPTIONS = [
    "programs are sampled, not proved: each receiver of the corpus is verified for ALL inputs, the corpus (count in coverage.programs) is drawn from the option grammar",
    "field types are abstract implementers of a client-view FromMeta trait: every conversion hook is a function of the item it is given and does not panic (prelude/l3.vrs)",
    "syn values (Meta, Lit, Path) are opaque; path text, spans and clone-equality are uninterpreted functions of the node",
    "user callables named in a declaration (with/map/and_then/default paths, Default impls) are external functions with uninterpreted spec twins",
    "pre-pass rewrites on emitted code: R14 (::darling -> crate::darling shim module), R7 (identity::<fn..>(f)(x) -> f(x)), R11 (format!(\"{}[{}]\") -> fmt_idx), R5 (match on &str -> if chain), R4 (function value -> annotated closure), R16 (alternates array bound to a local so its view can be stated)",
    "callee contracts of Error/Accumulator are those of prelude/error_api.vrs and prelude/acc_api.vrs, proved on the real bodies in units l1_error_api / c05_accumulator; unknown_field_with_alts and add_sibling_alts_for_unknown_field are assumed at the instantiation used",
    "the case-rule string function (ident_case) is not verified: expected names come from an independent Python implementation of the six rules",
]

for _p in PROPS.values():
    if _p.get("assumptions") == "L3":
        _p["assumptions"] = L3_ASSUMPTIONS

NOT_APPLICABLE = {
    "C20": "compilation success of emitted impls in a downstream crate is decided by rustc's type checker over generated programs; "
           "no pre/postcondition on darling's functions states or decides it, and sampling compile runs is a different technique family",
}
