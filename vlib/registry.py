"""Which units decide which property."""
PROPS = {
    "C01": {
        "units": [],
        "gen": [{"corpus": "structs", "mode": "success"}],
        "classes": r"postcondition|invariant|post-condition of closure|assertion failed",
        "exclude_text": r"strs\(__alts@\)",
        "level_text": "For each receiver of the corpus the from_list emitted by the working tree's derive is proved (Verus, all item lists of any length/order) "
                      "to return exactly the value the declaration prescribes whenever the input is mistake-free: oracle fin(run(items)) generated from the descriptor "
                      "(effective names, with/map/and_then, multiple in order, default chain, flatten hand-off, allow_unknown_fields, container map/and_then).",
        "level_note": "Proof per program; programs sampled (quick 14, thorough ~250 incl. all ordered pairs of field options). Trusted: see evidence.assumptions (client-view FromMeta, opaque syn, rewrite rules).",
        "design_ref": "DESIGN.md section 6 C01",
        "assumptions": "L3",
        "not_covered": ["element-level traits' from_derive_input etc. are covered under C08/C16", "L2 with_inherited / as_codegen_field / From<&Core> for TraitImpl carry their own contracts under C10 (units c10_field_options, c10_codegen_views, c10_codegen_conversions); C01 itself is decided on the emitted code"],
    },
    "C02": {
        "units": ["l1_error_api", "c05_accumulator", "c16_body_conversion", "c14_maps", "c02_sibling_shape"],
        "gen": [{"corpus": "structs", "mode": "err", "unit_span": True}, {"corpus": "enums", "mode": "full", "unit_span": True}, {"corpus": "elems", "mode": "full", "unit_span": True}],
        "classes": r"postcondition|invariant|post-condition of closure",
        "level_text": "Same emitted functions proved equal to the full oracle: Err(e_multiple(mistakes)) with one error per unknown name, repeat, literal item, "
                      "failed conversion (located at name / name[i]), flatten failure and missing field, in order; Ok iff none. Spans are erased in this view (rule R20: every `.with_span(..)` of the emitted code is dropped and the oracle attaches none; with_span changes only the span field, proved in l1_error_api), so only C03 sees whether and which span an error carries.",
        "level_note": "Proof per program; programs sampled. Accumulator/Error::multiple contracts proved on real bodies. Body-layer conversion (Data/Fields::try_from) and maps are under C16/C14. add_sibling_alts_for_unknown_field is proved (c02_sibling_shape) to return a tree alike to its argument - same bundles, same children in order, same kinds, names, locations, spans - whatever it does with suggestions (C17).",
        "design_ref": "DESIGN.md section 6 C02",
        "assumptions": "L3",
    },
    "C03": {
        "units": ["l1_error_api", "c03_error_spans", "c04_syn_conversion"],
        "gen": [{"corpus": "structs", "mode": "full"}, {"corpus": "enums", "mode": "full"}, {"corpus": "elems", "mode": "full"}],
        "classes": r"postcondition|invariant|post-condition of closure",
        "level_text": "with_span is proved first-writer-wins on the real body (r == e_with_span(self, span(node))); the emitted parsers are proved equal to an oracle in which "
                      "every unknown/duplicate/literal/conversion error carries the span of the offending item itself and missing-field errors none, with Span opaque (so attaching another node's span fails).",
        "level_note": "'inside the item' is modelled as equality with the span of that node (geometric containment is syn's). Proof per program; programs sampled. Span hand-down in flatten (into_vec, proved against flat_spans; F5 fixed in /repo) is unit c03_error_spans; the trait default methods' span attachment is proved in unit c15_routing (C15).",
        "design_ref": "DESIGN.md section 6 C03",
        "assumptions": "L3",
        "not_covered": ["diagnostics-feature path (single_to_diagnostic)", "geometric meaning of spans (Span opaque)", "SpannedValue/Flag/PathList spans are under C12/C13"],
    },
    "C08": {
        "units": ["c08_parse_attribute"],
        "gen": [{"corpus": "elems", "mode": "full"}],
        "classes": r"postcondition|invariant|post-condition of closure",
        "level_text": "For each element-level receiver of the corpus the from_derive_input / from_field / from_attributes emitted by the working tree's derive is proved (Verus, all attribute lists) equal to a "
                      "two-level oracle written from the statement: walk the element's attributes once; an attribute whose path is listed in attributes(..) contributes its items to ONE shared field state "
                      "(parse failure = one mistake, empty/bare = nothing), so any split of the same items over several attributes gives the same state; an attribute selected by forward_attrs (all non-consumed when bare) "
                      "is appended unmodified, in order, to the forwarded list; every other attribute leaves the state unchanged whatever its tokens.",
        "level_note": "Proof per program; programs sampled (all five element-level traits: FromDeriveInput, FromField, FromAttributes, FromVariant, FromTypeParam). Partition invariance is a corollary of the oracle's shape "
                      "(awalk folds run_from over the concatenation); attribute tokenisation (parse_attribute_to_meta_list, parse_meta_list) is uninterpreted.",
        "design_ref": "DESIGN.md section 6 C08",
        "assumptions": "L3",
        "not_covered": ["`data` with a custom `with` converter (`attrs` with one is covered: receivers D14/D15)", "partition-invariance as a separately stated lemma (it is implicit in the oracle: awalk folds run_from over the concatenation)"],
    },
    "C16": {
        "units": ["c16_body_conversion", "c16_generics", "c16_fields_helpers", "c16_passthrough_misc"],
        "gen": [{"corpus": "elems", "mode": "full"}],
        "classes": r"postcondition|invariant|post-condition of closure",
        "level_text": "Same emitted functions: the magic fields of the result are proved equal to the corresponding parts of the input element (ident, vis, ty, generics via FromGenerics, attrs = forwarded list, "
                      "discriminant, bounds, default, data = Data::try_from(body), fields = Fields::try_from(variant fields)) and a failing body conversion is returned as the error, after the attribute layer was clean.",
        "level_note": "L3: proof per program; programs sampled. L1 (units c16_body_conversion, c16_generics): Fields::try_from / Data::try_from return Ok with the input's kind and style, exactly one converted entry per field/variant in source order, "
                      "or Err(multiple(all failing elements' errors in order, named fields located at their identifier)); union -> Err; as_ref/map*/with_span/empty_from preserve kind, style, span, count, order; Generics::from_generics keeps count, order and where-clause; "
                      "TypeParams::next yields exactly the type parameters in order and terminates; syn pass-through impls return the named part unchanged. syn seen through full-field mirrors with opaque leaves; converters through client-view traits.",
        "design_ref": "DESIGN.md section 6 C16",
        "assumptions": "L3",
        "not_covered": ["magic fields with `with` converters or wrapped in SpannedValue/WithOriginal/Result at L3", "Fields::to_tokens print round trip (quote!/TokenStream: not expressible)", "`data` / `fields` magic members with a `with` converter"],
    },
    "C09": {
        # L2 functions that decide what a variant is called, whether it may be produced and what it inherits (tagged C09 in the preludes)
        "units": ["c10_variant_core_options", "c10_codegen_views"],
        "gen": [{"corpus": "enums", "mode": "full"}],
        "classes": r"postcondition|invariant|post-condition of closure",
        "level_text": "For each enum receiver of the corpus the from_list / from_string / from_word emitted by the working tree's derive are proved (Verus, all inputs) equal to an oracle "
                      "written from the statement: 0 items -> too_few(1), >1 -> too_many(1), one item -> dispatch on the effective variant name (rename, else case rule, snake_case by default): "
                      "unit variant only as a bare path, newtype delegated to the inner type with errors located under the name, struct variant parsed as a struct receiver "
                      "(same field oracle as C01/C02) located under the name; skipped variants have no arm; everything else is an error, never a chosen variant.",
        "level_note": "Proof per program; programs sampled (corpus of enum descriptors). Trusted: client-view FromMeta for inner types, parse_meta_list uninterpreted, rewrite rules incl. R13b/R5b/R7b.",
        "design_ref": "DESIGN.md section 6 C09",
        "assumptions": "L3",
        "not_covered": ["`word = false` is read by the derive as no word variant (checked through the emitted-interface obligation and the static from_word / is_word_target contracts)"],
    },
    "C17": {
        "units": ["c17_sibling_alts", "c17_did_you_mean", "c17_unknown_field_misc"],
        "kani": [
            {"name": "c17_scorer", "crate": "c17_scorer", "tmpl": "lib.rs.tmpl", "harnesses": ["did_you_mean_is_first_best_above_threshold"], "bounded": "at most 4 candidate names (unwind 6)"},
            {"name": "c17_add_alts", "crate": "c17_scorer", "tmpl": "add_alts.rs.tmpl", "harnesses": ["add_alts_only_improves"], "bounded": "loop-free over full-domain symbolic scores: complete, not bounded"},
        ],
        "bounded_units": ["c17_scorer::did_you_mean_is_first_best_above_threshold: Kani, at most 4 candidates, unwinding assertions on (BOUNDED cross-check with concrete IEEE f64 semantics; the deciding, unbounded proof of did_you_mean is the Verus unit c17_did_you_mean)",
                          "c17_add_alts::add_alts_only_improves: Kani, loop-free over all f64 scores in [0,1] (complete)"],
        "gen": [{"corpus": "structs", "mode": "full"}, {"corpus": "enums", "mode": "full"}, {"corpus": "elems", "mode": "full"}],
        "classes": r"assertion failed|post-condition of closure",
        "include_text": r"strs\(__alts@\)|e_sibling_alts",
        "classes_text": r"(postcondition|invariant|termination).* :: .*(e_sib|sib_upto|add_sibling_alts)|kani harness failed|(postcondition|invariant|assertion).* :: .*(dym_ok|score\(__f|merged\(|s_k|unknown_with_alts_ok|ErrorKind::UnknownField\(err\)|e_unknown\(|did_you_mean: None|did_you_mean == |kind_text)",
        "level_text": "In every emitted parser of the corpus the literal candidate list passed to unknown_field_with_alts is proved equal to the names addressable at that position "
                      "(non-skip, non-flatten fields; non-skipped variants), and the names passed to add_sibling_alts_for_unknown_field on a flatten result are the parent's addressable names; "
                      "suggestions are attached only by those two calls (oracle equality under C02/C03).",
        "level_note": "Proof per program; programs sampled. The f64 scorer is proved UNBOUNDED in Verus unit c17_did_you_mean on the real bodies of did_you_mean, ErrorUnknownField::{new, with_alts, add_alts}, "
                      "From<ErrorUnknownField> for ErrorKind and Error::unknown_field_with_alts: for any number of candidates and any score assignment the result is None iff no candidate scores above 0.8, "
                      "else the FIRST candidate of maximal score (declarative statement dym_ok, not a restated fold); add_alts replaces the stored suggestion only by the best new candidate and only on strict improvement. "
                      "This rests on stated axioms: non-NaN f64 comparison is a strict total order (IEEE 754), jaro_winkler is a non-NaN function of its arguments. The two Kani harnesses on the verbatim function text "
                      "(did_you_mean BOUNDED to <= 4 candidates; add_alts loop-free, complete) stay as cross-checks under CBMC's concrete f64 semantics. dym_spec stays an uninterpreted FUNCTION in the L3 units "
                      "(what the emitted code is checked against is that the candidate list is right; what a candidate list yields is this unit).",
        "design_ref": "DESIGN.md section 6 C17",
        "assumptions": "L3",
        "not_covered": ["Error::unknown_field_path_with_alts (path_to_string + the same with_alts call); unit c17_unknown_field_misc adds Error::unknown_field == e_unknown(name) (no suggestion, span or location), From<&str>/From<String> for ErrorUnknownField, ErrorKind::description", "feature `suggestions` off (the cfg(not(suggestions)) stub returns None by inspection; not run)", "the similarity function itself (strsim)"],
    },
    "C18": {
        "units": ["c18_shape"],
        "gen": [{"corpus": "supports", "mode": "full"}, {"corpus": "variant_supports", "mode": "full"}],
        "level_text": "Every function of core/src/util/shape.rs (ShapeSet::{new, from_iter, insert, insert_all, is_empty, contains_shape, contains, check, to_vec}, "
                      "Display for ShapeSet/Shape, Shape::description, the seven AsShape impls) and Error::unsupported_shape_with_expected are proved on their real bodies "
                      "against an oracle written from the statement: accepts(set, s) = some declared word admits s, where a word admits its own shape and `tuple` also admits Newtype. "
                      "contains/contains_shape return exactly accepts; insert changes exactly the flag of its word; check is Ok iff accepts and otherwise equals the "
                      "unsupported-shape error; to_vec is a duplicate-free list of <= 3 declared words with the same acceptance; the unreachable!() in Display is proved unreachable. "
                      "L3: the __validate_body emitted by the working tree's derive for a receiver declaring supports(..) is proved, for all bodies, equal to the verdict table "
                      "(struct vs enum-only words, per-variant errors in order, union => error; quick: 6 declarations, thorough: all 255 struct x enum word subsets). "
                      "FromVariant receivers declaring supports(..) (corpus variant_supports): the emitted from_variant checks the variant's fields against exactly the SET of declared words, after the attribute walk and before the presence checks, "
                      "and a rejected shape is one more accumulated error (never a short-circuit).",
        "level_note": "Proof for all sets/shapes/containers; L3 proof per declaration (exhaustive over word subsets in the thorough tier). Trusted: reduced syn mirrors (Punctuated::len is a pure count), IntoIterator yield sequence, derive(Default) = all false, "
                      "Display text (R11), Error/Accumulator contracts proved in l1_error_api / c05_accumulator.",
        "design_ref": "DESIGN.md section 6 C18",
        "assumptions": [
            "syn::{Fields, FieldsNamed, FieldsUnnamed, DataStruct, Variant} are reduced mirrors with syn's variant/field names; Punctuated is opaque and len() returns an uninterpreted count (prelude/shape_syn.vrs)",
            "R2: `items.into_iter().collect()` -> ShapeSet::from_iter(items); `for shape in iter.into_iter()` -> loop over shapes_of(iter), the uninterpreted yield sequence",
            "#[derive(Default)] for ShapeSet yields four false flags (external_body default()); derive(Clone, Copy) re-attached to Shape and ast::Style",
            "R11: write!(f, ..) -> fmt_args!(f, ..) opaque sink (argument expressions stay verified); the rendered text of ShapeSet/Shape is display_spec(value), uninterpreted",
            "R15: Display::fmt and FromIterator::from_iter are verified as inherent functions; AsShape impls are verified as real trait impls",
            "description texts are checked against the literals of Shape's rustdoc; the property only uses their pairwise distinctness (lemma_desc_injective)",
        ],
        "not_covered": [
            "FromVariant supports: ShapeSet::new/check are seen through a restated contract over the opaque field list of the element mirror (verdict function uninterpreted; its meaning is proved in c18_shape); word parsing is under C10 (set_word)",
            "the message text rendered by Display for ShapeSet (only panic-freedom is proved)",
        ],
    },
    "C19": {
        "units": ["c19_usage", "c19_lifetimes", "c19_trait_impl", "c19_usage_outer", "c19_outer_from_impl"],
        "level_text": "Type-parameter and lifetime usage analysis (core/src/usage/type_params.rs, lifetimes.rs: every hand-written impl, every uses_type_params!/uses_lifetimes! macro instance "
                      "(24 + 31, instantiated from macros_public.rs with the invocation's actual field list), Option/Vec/Punctuated impls, the blanket collect_*/_cloned, trait default *_cloned, "
                      "Options::from/include_type_path_qself) is proved by Verus on the real bodies, incl. termination of the mutual recursion, to return exactly the oracle written from the statement: "
                      "leading un-`::`-qualified segment / lifetime of a reference, generic argument, lifetime bound or for<..> binder, through ref/ptr/slice/array/paren/group/tuple/fn/trait-object/impl-trait, "
                      "qualified-self only for Purpose::Declare, collection = union of members; proved lemma families show every answer is a subset of the queried set. "
                      "TraitImpl::{declared_type_params, used_type_params, type_params_matching, type_params_in_fields} and the codegen::Field/Variant, ast::Data/Fields impls: the bounded parameters are exactly "
                      "the declared type params used (BoundImpl) by non-skipped fields, for enums by non-skipped fields of non-skipped variants. compute_impl_bounds: where-clause, angle tokens, lifetime/const "
                      "params unchanged, each type param gains exactly the plain trait bound at the end iff it is in applies_to. "
                      "Outside usage/ (unit c19_usage_outer): UsesTypeParams/UsesLifetimes for ast::Data<V,F>, ast::Fields<T> (generic in V, F, T; lemmas pin them to the field-list / variant-list oracles) and util::Ignored (empty set); "
                      "GenericsExt::declared_type_params / declared_lifetimes == exactly the declared type-parameter idents / lifetimes (const params, bounds, defaults contribute nothing). "
                      "Bound placement (unit c19_outer_from_impl): OuterFromImpl::wrap for every implementor appends exactly one item `impl<G'> trait_path() for ident<G'> <the receiver's own where-clause> { body }` where G' repeats the receiver's generics "
                      "and adds trait_bound() to exactly the used type params; trait_path/trait_bound/base of all six implementors (trait_bound == ::darling::FromMeta for all six, the trait default body verified where there is no override).",
        "level_note": "Proof for all mirrored syntax trees, purposes and sets. Generic impls proved per instantiation the walk uses (Verus rejects the trait-dictionary cycle). Filters are generic Fn parameters: "
                      "contracts quantify over what the filter answered per element (forward direction of closure ensures). R2 loop rewrites keep closure bodies verbatim; removing a `.filter` is translated by an "
                      "opt fallback; other chain restructurings or replacing a macro invocation by a hand impl lose an anchor (exit 2).",
        "design_ref": "DESIGN.md section 6 C19",
        "assumptions": [
            "syn types are mirrored (prelude/usage_syn.vrs) with exactly the fields the code reads, under syn's names; Punctuated is its value sequence; &Fields iterates its fields in order; enums have exactly the variants the code names (Type: all 15 of syn 2.0), so `_ => panic!` arms are unreachable by construction",
            "codegen::Field / codegen::Variant are mirrored by the fields read (ty, skip / data, skip); ast::Data, ast::Fields, ast::Style, TraitImpl, Purpose, Options are the real items",
            "Ident and Lifetime are opaque; == is equality of the abstract value (syn: same text, spans ignored); clone yields an equal value",
            "IdentSet/IdentRefSet/LifetimeSet/LifetimeRefSet (FnvHashSet) are opaque with a ghost Set view; default/with_capacity_and_hasher = empty, extend = union, insert, contains, iter() yields exactly the members, into_iter().cloned().collect() keeps the members (std HashSet contracts, assumed)",
            "TypeParamBound::clone yields an equal value (syn derive); Generics::type_params() is modelled by a verified mirror function (the Type entries of params, in order)",
            "R2: fold / filter-collect / iter_mut / .iter().filter(f) are replaced by their defining index loops (filter calls f once per element, in order); closure and loop bodies are spliced verbatim; Fields::iter() is read as self.fields.iter()",
            "R8: macro instances are the macro_rules transcriber instantiated with the invocation's arguments ($crate -> crate); R15: trait-impl methods verified as inherent methods or as methods of a mirror trait for std receivers; R1b: `_` parameter named `_p1`",
            "R4: the two closures of used_type_params get `ensures b == <their own body>`; derive(PartialEq) on Purpose and From<Purpose> for Options are written out as spec twins and proved equal to the real bodies",
            "c19_outer_from_impl: quote!/path! invocations compile against mirror macros at the top of the unit (slot order read from the source); used_type_params/declared_type_params through a contract stub whose oracle text is copied from units/c19_trait_impl.vrs (proved there)",
            "c19_usage_outer: Lifetime::clone equal value, LifetimeSet::{default, insert} per std HashSet (assumed)",
            "the lifetime oracle does not model scopes: a for<'a> binder's own name counts as the code counts it; rustc forbids lifetime shadowing, so it can never be a declared parameter",
        ],
        "not_covered": [
            "ImplGenerics/TypeGenerics printing (split_for_impl), the #body contents and the FromMeta impl's own token text; where-clause predicates (presence tracked, content opaque)",
            "observation: Core::bound (#[darling(bound = ..)]) is parsed and never read by any codegen path - the statement's 'where-clause repeated unchanged' holds, the option is dead",
            "positions the mirrors do not model: the <..> of an associated-type binding or constraint, array lengths and const-argument expressions, type macros, TypeBareFn's own for<..> binder, TypeParam defaults (observations in DESIGN.md section 8)",
            "replacing a macro invocation by a hand-written impl, or a field the mirror lacks, is undecided (exit 2), not an alarm",
            "panic-freedom on syn variants the mirrors do not have (TypeParamBound::Verbatim/PreciseCapture, future #[non_exhaustive] variants)",
        ],
    },
    "C15": {
        "units": ["c15_routing"],
        "classes": r"postcondition|post-condition of closure|assertion failed",
        "level_text": "The real default bodies of all ten FromMeta methods are proved (Verus, any implementer, any subset of overrides) against default_ensures in call_ensures form: "
                      "each item goes by its form alone to exactly one hook (word / split list / bool, string, char literal / literal / expression), groups are looked through, "
                      "every default hook rejects with the documented kind, and the result is res_with_span(hook result, item span). Nine probe implementers (all, none, each single hook) "
                      "turn this into concrete facts result == table(item) for every item, incl. groups of any depth by induction; unexpected_lit_type/unexpected_expr_type/"
                      "unknown_lit_str_value/From<syn::Error> proved on their real bodies.",
        "level_note": "Routing half only. Token-stream splitting (parse_meta_list, Parse/ToTokens for NestedMeta, round trip) is uninterpreted: not applicable to contracts (syn parser combinators). "
                      "The 2^7 override subsets are covered by the generic default_ensures; probes guard against vacuity. Termination of from_expr on nested groups not proved.",
        "design_ref": "DESIGN.md section 6 C15",
        "assumptions": [
            "syn mirror (prelude/meta_syn.vrs): variant/field shape of Meta, Expr (40 variants, syn 2.0.119), Lit copied from syn; payloads opaque; spans, LitStr/LitChar::value, clone and parse_meta_list are uninterpreted functions of the node",
            "R17: Verus rejects a postcondition mentioning its own function, so the recursive Self::from_expr call of the default from_expr is tagged assume(expr_hook_rel(arg, result)) and axiom_expr_hook_rel states that such a result satisfies T::from_expr's postcondition",
            "#[verifier::exec_allows_no_decreases_clause] on the default from_expr (no decreases for trait default methods in Verus): termination not proved",
            "R10/R12/R18 A-normalisation: match result and map_err result let-bound with proof hints; &X?[..] -> as_slice; `?` on syn::Result spelled out as match + Error::from (R15 inherent twin of From<syn::Error>)",
            "R3: closures |e| e.with_span(x) get a type and an ensures that is proved against the closure body",
            "probe hooks are external_body functions returning uninterpreted h_x::<P>(arg) (test doubles only)",
        ],
        "not_covered": ["splitting half of C15 (syn parser / printer): parse_meta_list, Parse/ToTokens for NestedMeta, print-parse round trip", "termination of from_expr"],
    },
    "C12": {
        "units": ["c12_wrappers", "c12_override_expr", "c12_ident_atomic", "c12_wrapper_elements", "c12_wrapper_helpers", "c12_flag_misc"],
        "classes": r"postcondition|post-condition of closure|assertion failed|precondition not satisfied",
        "level_text": "Every FromMeta method of Option<T>, darling Result<T>, Result<T,Meta>, Box/Rc/Arc/RefCell<T> (macro instances), Override<T>, SpannedValue<T>, WithOriginal<T,Meta>, Flag, (), bool "
                      "is proved on its real body, for every T and item, in the form exists r0. call_ensures(T::hook, args, r0) && r == wrap(r0) (from_none likewise; SpannedValue span = path | list tokens | value expr; "
                      "WithOriginal.original == *item; Result never Err). Probe-instantiated checks prove for PAll/PNone that every item form through each wrapper equals wrap(what T itself returns), and the absent-item behaviour of all wrappers. IdentString: new/From<Ident> establish string == Display(ident); from_meta == syn::Ident's verdict on every item form, wrapped; as_ident/as_str/span/From<IdentString> for Ident and String return exactly the stored parts. AtomicBool::from_meta == bool's verdict re-wrapped, errors spanned (route_AtomicBool: bool's full per-form table). "
                      "Element-level traits (unit c12_wrapper_elements): all six spanned! instances (Ok(v) => SpannedValue{v, span of the element}; Err(e) => e.with_span(element)), all six with_original! instances (parsed == T's outcome, original == an identical copy of the element, T's error unchanged), "
                      "all seven ignored! instances (Ok(Ignored) for every input), SpannedValue::{new, span, map_ref, Default, Deref, DerefMut, AsRef, From<T: Spanned>}, WithOriginal::new, and two-level compositions over a probe element receiver. "
                      "Helpers (unit c12_wrapper_helpers): Override::{as_ref, as_mut, is_explicit, explicit, unwrap_or, unwrap_or_else, unwrap_or_default, Default, From<Option<T>>} against the Option bijection (Inherit <-> None, Explicit(v) <-> Some(v)); "
                      "IdentString::map (text == what map_fn returned for the old text, span kept), AsRef x2, PartialEq x3. Flag (unit c12_flag_misc): present / is_some / span / From<Flag> for bool / From<bool> for Flag (true <-> present, false <-> Flag(None)).",
        "level_note": "Override<T> for name=value items is its own obligation (unit c12_override_expr): it failed on the pinned tree (F2) and holds since fix commit b99d737. "
                      "SpannedValue adds the item's span to a spanless error of T (as C03 demands); otherwise errors are T's unchanged.",
        "design_ref": "DESIGN.md section 6 C12",
        "assumptions": [
            "FromMeta default methods are seen through the default_ensures proved in unit c15_routing (prelude/frommeta_trait.vrs stubs)",
            "syn mirror and R17 axiom as for C15",
            "R4: .map(Some/Ok/Box::new/Rc::new/Arc::new/RefCell::new) -> closure with an ensures proved against its body; |_| closures get a named, typed parameter",
            "Result::or_else contract (std, assumed); str::parse::<bool> modelled by parse_bool: exactly \"true\"/\"false\" (std, assumed)",
            "RefCell is opaque: RefCell::new(v) == refcell_of(v) (uninterpreted); Box/Rc/Arc use vstd's transparent model (*p == v)",
            "R8: smart_pointer_t!/with_original! instances are instantiated by tools/extract from darling's own macro_rules",
            "syn::Ident impl through prelude/syn_ident_impl.vrs (proved in c13_syn_values), bool impl through prelude/bool_impl.vrs (proved in c11_misc)",
            "c12_wrapper_elements / c12_wrapper_helpers: the six syn element types are opaque (span() a function of the node, clone() an equal node); element-level traits are contract-free mirrors reached through call_ensures; Span::call_site() a constant; Ident::new(s, sp) displays as s at sp; Ident == Ident compares texts; local AsRef mirror with an implementer-defined relation",
            "AtomicBool opaque mirror (std type is the unstable generic Atomic<bool>): new(b) == atomic_of(b); Ident::span / Display uninterpreted; vstd FromSpecImpl declared for the two From<IdentString> impls (from_spec proved against the bodies)",
        ],
        "not_covered": ["IdentString Hash/ToTokens/Display/Debug and derived Clone/Ord; Override Display", "Ident::new panicking on text that is not an identifier (IdentString::map documents that panic; not modelled)", "two-level compositions beyond Box<Option<_>> and the element-level pairs of c12_wrapper_elements",
                        "observation (not part of C12): util::Ignored overrides only from_meta, so Ignored::from_value / from_expr / from_list called directly fall back to the trait defaults and return Err although its doc says every element is read successfully; not reachable through darling's own code"],
    },
    "C10": {
        "units": ["c10_field_options", "c10_variant_core_options", "c10_receivers", "c10_element_options", "c10_codegen_views", "c10_shape_words", "c06_middleware", "c06_parse_attr", "l2_options_api", "c10_codegen_conversions", "c10_parse_data_defaults", "c10_default_expr_value"],
        "classes": r"postcondition|invariant|assertion failed|post-condition of closure",
        "level_text": "Every derive-time option parser of core/src/options is proved on its real body against contracts written from the rule list: InputField/InputVariant/Core/FromMetaOptions/OuterFrom/ForwardedField::parse_nested, "
                      "from_field/from_variant, Core::start, all validate_body, the six receivers' `new` (FromMeta, FromAttributes, FromDeriveInput, FromField, FromVariant, FromTypeParam) and their parse_nested/parse_field. "
                      "Accepted => invariant wf() and exactly the addressed option changed; Err for unknown/repeated options, map+and_then, each flatten conflict in BOTH orders; validate_body grows errors by exactly the number of violations, each at its token; parse_body has no exit (`?`/return) before validate_body has run, so element-level and cross-field diagnostics are reported together (ghost flag, name-independent anchor); "
                      "magic fields are recognised by Rust name alone (ident, attrs | vis, generics, data | vis, ty | discriminant, fields | bounds, default) and change exactly their slot; a union, an enum for element-level traits (with or without variants), "
                      "an unrepresentable tuple body for FromMeta give diagnostics only. Shape words: DeriveInputShapeSet::from_list and DataShape::from_list equal fold oracles (exactly any/struct_*/enum_* resp. the five bare words; first mistake vs all mistakes). "
                      "Views handed to codegen: from_word = first variant whose word is TRUE, as_codegen_field/as_codegen_variant copy names, flags, defaults and converters, Field::as_name is None iff skip||flatten; forward_attrs lists and will_forward_any. "
                      "Conversions to codegen (unit c10_codegen_conversions): From<&Core> for TraitImpl (ident, generics by reference; data of the same kind/style/span/length with the i-th field/variant what as_codegen_field/as_codegen_variant promise, in order; "
                      "default through as_codegen_default - panic arm unreachable under wf -, post_transform, allow_unknown_fields absent = false), OuterFrom::as_forward_attrs, all six From<&XOptions> for XImpl (every member the same-named option, nothing dropped, swapped or defaulted), "
                      "ToTokens of the six option structs (exactly the tokens of the converted struct are appended). ParseData default bodies (unit c10_parse_data_defaults): parse_variant/parse_field return exactly the unsupported-format error spanned at the element and leave self unchanged; validate_body leaves the errors unchanged.",
        "level_note": "Deductive proof for all inputs of the option layer, modulo opaque syn and uninterpreted option-value conversions (converse only modulo 'every option value converts'). wf() is a parse-time invariant (after with_inherited only wf_codegen()). "
                      "F1/F4/F9 fixed by /repo commits ae776c6 / 5ac3a9a / 5a67c48. F16 (DataShape::from_list placed unknown-word diagnostics at the whole supports(..) item, not at the word) fixed by /repo commit 0663dbb. "
                      "Residual false-alarm risk: restructuring a verified loop.",
        "design_ref": "DESIGN.md section 6 C10",
        "assumptions": [
            "syn/proc_macro2 nodes opaque; Meta/Attribute/Field/Variant/Fields/Data/DeriveInput mirrored with the fields read; Punctuated mirrored as a sequence; spans, path text, ident text are uninterpreted functions of the node; Clone yields an equal value",
            "syn: a parsed Path has at least one segment (precondition of the two shape from_list functions)",
            "path.is_ident(s)/get_ident observe an uninterpreted path_ident(p); Ident == Ident compares ident text",
            "FromMeta conversions of option values (String,bool,Flag,Callable,Path,RenameRule,Vec<WherePredicate>,SpannedValue<T>,PathList,ForwardAttrsFilter,DeriveInputShapeSet,DataShape at the receiver layer) are external functions with uninterpreted results that do not panic; Option<T> and DefaultExpression are proved on their real bodies",
            "derived Clone/Copy/PartialEq/Default on Flag/SpannedValue/Style/PathList/DataShape replaced by structural impls; ident_case::RenameRule mirrored, renaming uninterpreted",
            "std: Option::map_or_else / or_else (assume_specification), slice.iter().find (iter_find: first accepted element), str::starts_with / strip_prefix / trim_start_matches / String==str as documented, Cow per vstd",
            "R5 string matches -> str_eq/opt_str_is chains (name-independent wildcard anchors); R2/R6 iterator chains and for loops -> defining loops; R10 tail let-binding; R11 format! texts uninterpreted; R12 parse_quote!/parse_quote_spanned! -> opaque values determined by the spliced arguments; R15 trait methods in place, parse_attributes in a blanket subtrait",
            "Fields::as_ref / Fields::map: contract-only here, same contract text proved in c16_body_conversion; Error::unknown_field / unknown_field_path_with_alts, Path::from_expr, NestedMeta::parse_meta_list, From<syn::Error>, From<ExprClosure> for Callable: external; Error/Accumulator contracts proved in l1_error_api / c05_accumulator",
        ],
        "not_covered": ["the variant relation of From<&Core> for TraitImpl is only as strong as as_codegen_variant's contract (field_view_ok per field)",
                        "routing of `supports(..)` / `forward_attrs(..)` items from FromMeta::from_meta to from_list/from_word (C15)", "ToTokens of the option types",
                        "'word = false' is counted as a word annotation by validate_body (contract and code agree); from_word ignores it (proved)"],
    },
    "C06": {
        "units": ["c06_parse_attr", "c06_middleware", "c10_field_options", "c10_variant_core_options", "c10_receivers", "c10_element_options", "c10_codegen_views", "c10_shape_words", "l2_options_api", "c10_codegen_conversions", "c10_parse_data_defaults", "c06_derive_entry", "c10_default_expr_value"],
        "classes": r"precondition not satisfied|assertion failed|postcondition|invariant|unreachable|panic",
        # parse_nested / validate_body carry C10's functional contracts (which option changes, how many violations); for C06 they count
        # with their panic-site preconditions and the accumulator-discipline assertions only
        "fn_classes": [(r"^(parse_nested|validate_body)$", r"precondition not satisfied|assertion failed|unreachable|panic")],
        # option values are converted at derive time by the runtime library's own FromMeta impls (Flag, bool, String, Option, SpannedValue, Path, Ident, PathList, Callable,
        # Vec<WherePredicate>, RenameRule): C06 depends on them for TOTALITY only - their panic-class obligations count here, their functional contracts stay with C11/C12/C13
        "panic_units": ["c12_wrappers", "c11_misc", "c13_syn_values", "c13_callable_group", "c15_routing"],
        # parse_body's `__checked` assertions state C10's "all violated rules are reported in one pass" (no exit before validate_body has run): not a totality claim
        "exclude_text": r"__checked",
        "level_text": "Every panic!/unreachable!/unwrap in the option layer is kept in the extracted text and proved unreachable: parse_field/parse_variant/parse_body from the body-shape agreement Core::start establishes and option parsing preserves, "
                      "Core::as_codegen_default from 'default is never Inherit', get_ident().unwrap() from is_ident, segments.first().unwrap() in the shape word parsers from syn's non-empty-path guarantee. parse_attr is total for every attribute form "
                      "(bare, name-value, literal items, non-list token content) and no `?`/return executes while an accumulator created in the function is live (R13 ghost counters). All six receivers' `new` return normally with either a receiver whose "
                      "codegen preconditions hold (wf, representable body, no cross-field violation, struct body for element-level traits) or a bundle of >= 1 diagnostics; a union, an empty enum and an enum with variants are rejected for element-level traits. "
                      "Entry points (unit c06_derive_entry): each of the six derive::* functions returns exactly write_errors(e) when the receiver's `new` fails and exactly the tokens of the receiver when it succeeds, with no panic path; into_token_stream's precondition (container default never Inherit) is discharged from `new`'s contract.",
        "level_note": "Covers the option-parsing half of all six derives. F1/F4 (and F12: empty enum) fixed in /repo (ae776c6, 5ac3a9a, 508a424) and in the baseline. Not covered: codegen to_tokens skeleton, 'exactly one impl block', write_errors. "
                      "syn parsers are assumed not to panic; the runtime library's own option-value converters (Flag, bool, String, Option, SpannedValue, Path, Ident, PathList, Callable, the FromMeta routing defaults) are proved panic-free in the panic_units c12_wrappers / c11_misc / c13_syn_values / c13_callable_group / c15_routing (their panic-class obligations count for C06), user-supplied converters are external.",
        "design_ref": "DESIGN.md section 6 C06",
        "assumptions": ["as C10", "c06_derive_entry / c10_codegen_conversions: token emission is modelled (prelude/options_tokens.vrs): tokens_of/tokens_cat/error_tokens/empty_tokens uninterpreted, ToTokens impls of the six impl structs external; Data::{as_ref, map_struct_fields, map_enum_variants} and FromMetaOptions/FromAttributesOptions::new restated as external contracts (proved in c16_body_conversion / c10_receivers)", "R13: ghost flag/counter set at Error::accumulator(), asserted clear at every expanded `?`/return (guard_try)",
                        "R18: `E?` on a syn::Result expanded to match + Error::from(e); NestedMeta::parse_meta_list and From<syn::Error> uninterpreted",
                        "R12: attr.meta.path() == &parse_quote!(darling) -> path.is_ident(\"darling\")"],
        "not_covered": ["codegen stage (to_tokens panics are excluded only through the receivers' `new` postconditions; codegen's own panics are left to the L3 units)", "Error::write_errors itself (external here; its `proper` precondition from c04_syn_conversion is not established for the errors `new` returns)",
                        "emit_impl_or_error! sits in expression position: unit c06_derive_entry expands it with an opt rewrite whose right-hand side is a hand copy of the transcriber, so an edit of the macro_rules text itself is not seen"],
    },
    "C11": {
        "units": ["c11_ints", "c11_nonzero", "c11_misc"],
        "classes": r"postcondition|post-condition of closure|assertion failed|precondition not satisfied",
        "level_text": "Every instance of from_meta_num! (24 integer targets incl. NonZero) and from_meta_float! (f32, f64), instantiated from darling's own macro_rules on every run, and bool/char/String/PathBuf are proved on their real bodies: "
                      "from_string(s) == (std_parse::<T>(s) ? Ok(v) : Err(unknown_value(s))); from_value(lit) == Str -> that on the literal's value, Int/Float -> syn's base10_parse verdict through Error::from, any other kind -> unexpected_lit_type, "
                      "every Err spanned with the literal unless already spanned; char == the single character iff the string has exactly one; bool word == true. Through the trait's default dispatchers (c15_routing) each type's from_meta/from_nested_meta "
                      "is proved equal to a per-form table (word/list/non-literal expression rejected by form, groups transparent at any depth), and every rejection carries a span. ident_case::RenameRule::from_string == exactly the six spellings of ident_case's FromStr (lowercase, PascalCase, camelCase, snake_case, SCREAMING_SNAKE_CASE, kebab-case), else unknown_value(s), with its per-form table.",
        "level_note": "Delegation proved; numeric semantics (range, radix, underscores, suffix, zero for NonZero, sign) live in std's FromStr and syn's base10_parse and are TRUSTED as uninterpreted functions of exactly the user's text / literal. "
                      "No trim/cast/wrap/saturate/default can be inserted without breaking an equality. `x = -5` is a unary expression for syn and is rejected by form (documented: negative numbers must be quoted).",
        "design_ref": "DESIGN.md section 6 C11",
        "assumptions": [
            "str::parse::<T> == std_parse::<T>(chars) (assume_specification on the real call), LitInt/LitFloat::base10_parse::<T> == lit_int_parse/lit_float_parse(lit): uninterpreted",
            "PathBuf opaque: PathBuf::from(&str) == pathbuf_of(chars) (R11 .into() -> .into_pathbuf()); String/chars()/Chars::next via vstd",
            "FromMeta defaults through default_ensures proved in c15_routing; Error constructors through contracts proved in l1_error_api/c15_routing; syn mirror prelude/meta_syn.vrs; R17 axiom",
            "R3: |_| .. / |e| e.with_span(value) closures typed with an ensures proved against the closure body; R4: .map_err(Error::from) eta-expanded; R8 macro instantiation",
            "str::trim given a content-free contract (prelude/std_trim.vrs) only so that trim-inserting edits are decided",
            "std_parse::<RenameRule> == rename_rule_of (axiom transcribed from ident_case 1.0.1 FromStr); RenameRule enum mirrored by hand; syn mirror prelude/meta_syn_values.vrs (structural Punctuated/Path)",
            "prelude/std_chars_nth.vrs: std contract of Iterator::nth on Chars via wrapper chars_nth (opt rewrite so that an edit using it is decided; not used by darling)",
            "the u8/u16/u32/u64/usize and bool contracts live in prelude/uint_impls.vrs / bool_impl.vrs (body mode here, stubs in c13_arrays / c12_ident_atomic)",
        ],
        "not_covered": ["an edit that introduces an untyped closure is flagged (its result is unknown to Verus) even if harmless", "that quoted and unquoted plain-decimal spellings denote the same value (std vs syn parser agreement: trusted)", "termination of the default from_expr on nested groups (R17)"],
    },
    "C13": {
        "units": ["c13_syn_values", "c13_parse_expr", "c13_parse_expr_agree", "c13_callable_group", "c13_arrays", "c12_ident_atomic", "c13_path_helpers", "c13_callable_conv"],
        "classes": r"postcondition|post-condition of closure|assertion failed|precondition not satisfied|invariant",
        "level_text": "syn::Expr, syn::Path, syn::Ident, from_syn_expr_type! x3, from_syn_parse! x18, from_meta_lit! x8 (from_value), syn::Lit, syn::Meta, Vec<WherePredicate>, Punctuated<T,P>, PathList::from_list, Callable::from_expr, IdentString, "
                      "preserve_str_literal and parse_str_literal are proved on their real bodies: bare form => Ok(the user's node itself); quoted form => Ok(what syn's parser for T makes of exactly that literal / string) or unknown value at the literal; "
                      "other literal kinds / expression forms => unexpected type, spanned; invisible groups transparent at any depth (decreases proved); PathList keeps every word in order or fails at the first non-word, spanned. "
                      "Per-form tables through the default dispatchers for Expr/Path/Ident/ExprArray/Type/Visibility/LitInt/Lit/Meta, every rejection spanned. The helper statements differ only for string literals (lemma_helpers_agree). from_numeric_array! x5 and the Vec halves of from_meta_lit! x8 (from_list/from_value/from_expr): the elements of a bare array, a quoted array (re-parsed through ExprArray::from_value) or the list form are each converted by the element type's own conversion, in order; result = the Vec in order or the FIRST failing element's error (spanned); groups around the array and around each element transparent at any depth; termination of the from_expr<->from_value pair proved.",
        "level_note": "Token-for-token is equality of the returned node with the user's node (clone == node). syn's grammar is TRUSTED (uninterpreted litstr_parse/syn_parse_str). The helper-agreement obligation (c13_parse_expr_agree, F6) and the group obligation of Callable "
                      "(c13_callable_group, F10) failed on the pinned tree and hold since fix commits 24bb420 / cab553a; numeric-array elements wrapped in more than one invisible group (F17) since 707c711.",
        "design_ref": "DESIGN.md section 6 C13",
        "assumptions": [
            "prelude/meta_syn_values.vrs: widened syn mirror (opaque Ident/Type*/Visibility/WherePredicate/Punctuated, ExprPath{path}), Clone == equal node, syn::parse_str / LitStr::parse / parse_terminated / LitStr::new / Path::get_ident uninterpreted",
            "`::syn::Lit` in signatures resolved by `extern crate self as syn` + module wrap (name resolution only)",
            "R2 Punctuated.into_iter().collect() -> into_vec() (items in order); R11 format!(\"where {}\", s) -> fmt_where(s) == \"where \" + s; R4 parse_with(Punctuated::parse_terminated) -> parse_terminated(); R3/R8/R15/R6 as elsewhere",
            "FromMeta defaults / Error constructors through contracts proved in c15_routing / l1_error_api",
            "Punctuated = the sequence of its values (Vec inside; iter()/into_iter() order), Path{leading_colon, segments}, PathArguments::is_none, get_ident with syn's body",
            "R2c: `.iter().map(f).collect::<Result<Vec<_>>>()` -> its short-circuit loop (opt prefix/suffix pair, closure body in place); R6w: `while let` peel loop -> loop+match with invariant; R1c: `|_|` -> `|__w|`; Result::or_else (std_assumed_wrappers)",
        ],
        "not_covered": ["an adapter inserted into a short-circuit chain loses the anchor (exit 2)",
                        "bare and quoted spellings give EQUAL values (needs parse(print(x)) == x for syn)", "IdentString Hash/Display impls; ToTokens for Callable / PathList (token-stream code)"],
    },
    "C14": {
        "units": ["c14_maps", "c14_key_ident", "c13_path_helpers"],
        "classes": r"postcondition|invariant|post-condition of closure|assertion failed|precondition not satisfied",
        "level_text": "All five map! instances (HashMap<String|Ident|Path,V,S>, BTreeMap<String|Ident,V>) are proved on the macro's real body, for every V: FromMeta and every item list, against ONE oracle over the item sequence "
                      "(keys_seen/entries/errs after k items): exists vals (V's verdict per named item, via call_ensures) with view(r) == Ok(entries(n)) iff errs(n)==[] else Err(e_multiple(errs(n))), and Ok => exactly n entries; "
                      "errs has one leaf per literal item (at the literal), per repeated occurrence (at that occurrence's path), per unconvertible key (+ its value's error) and per unconvertible value located at(path text); first occurrence wins, "
                      "keys with failed values still count as seen. lemma_success_iff: Ok <=> all named, keys convert and are pairwise distinct, values convert. With the deterministic probe PAll, hash and ordered maps are proved to return equal views/errors on every list. "
                      "KeyFromPath for String/Path/Ident and Error::at_path on their real bodies (Ident: exactly one segment, no leading ::, no arguments; else custom error at the path).",
        "level_note": "Hash instances hold under builds_valid_hashers::<S>() (hypothesis). The literal-item leaf is located at the literal since fix commit 1784754 (F11). "
                      "In c14_maps the Ident key conversion is an arbitrary function of the (opaque) path; the real one is proved in c14_key_ident against a structural Path mirror.",
        "design_ref": "DESIGN.md section 6 C14",
        "assumptions": [
            "String / mirrored Ident / mirrored Path are lawful keys: obeys_key_model, key_obeys_cmp_spec (axiom fns in prelude/c14_std.vrs, c14_keys.vrs); vstd contracts of HashSet/HashMap/BTreeMap/Cow",
            "HashMap::with_capacity_and_hasher returns an empty map (assume_specification); &Cow<str> as &str keeps the text (cow_as_str, R11)",
            "util::path_to_string is a function of the path (path_str uninterpreted); Clone of Path/Ident yields an equal value; syn mirror as for C15",
            "R8: rule 3 of map! is instantiated by tools/extract; the constructor expression of rules 1/2 is transcribed in the template head (not sliced)",
            "R2: nested.iter().map(closure) + for -> as_pair_fn(closure) + index while calling it per item in order; R3/R10 closure headers and let-bound from_meta call; R14 syn::Ident -> Ident",
            "Accumulator / Error / FromMeta defaults seen through contracts proved in c05_accumulator, l1_error_api, c15_routing",
        ],
        "not_covered": ["the map units still read key text through the uninterpreted path_str; unit c13_path_helpers proves path_to_string == the segment idents joined by \"::\" on a structural Path mirror, the two mirrors are not yet merged", "value types beyond generic V + probe PAll (nested maps follow from genericity)", "HashMap/BTreeMap from_meta routing into from_list (C15 default)", "constructor expressions in map! rules 1/2"],
    },
    "C07": {
        "ignore_tags": True,
        "classes_text": r"assertion failed :: .*(__live|__armed)",
        "units": ["c11_ints", "c11_nonzero", "c11_misc", "c13_syn_values", "c12_wrappers", "c15_routing", "c18_shape", "c16_body_conversion", "c16_generics", "c14_maps", "c14_key_ident", "c08_parse_attribute", "c04_syn_conversion", "c04_error_tree", "c05_accumulator", "c17_sibling_alts", "c13_arrays", "c13_parse_expr", "c13_callable_group", "c12_ident_atomic", "c12_override_expr", "c17_did_you_mean", "c12_wrapper_elements", "c12_wrapper_helpers", "c19_usage_outer", "c19_outer_from_impl", "c13_path_helpers", "c13_callable_conv", "c16_fields_helpers", "c12_flag_misc", "c16_passthrough_misc", "c17_unknown_field_misc"],
        "gen": [{"corpus": "structs", "mode": "full"}, {"corpus": "enums", "mode": "full"}, {"corpus": "elems", "mode": "full"}, {"corpus": "supports", "mode": "full"}],
        "classes": r"precondition not satisfied|overflow|underflow|division by zero|index out of|unreachable|panic",
        "level_text": "Every expect()/unwrap/index/arithmetic site and every accumulator-armed precondition in the emitted parsers is a proved Verus precondition for all inputs "
                      "(e.g. Option::expect requires Some; finish requires armed).",
        "level_note": "Proof per program; programs sampled. syn/std parsers and user converters assumed not to panic.",
        "design_ref": "DESIGN.md section 6 C07",
        "assumptions": "L3",
    },
    "C04": {
        "units": ["c04_error_tree", "l1_error_api", "c04_syn_conversion"],
        "level_text": "ErrorKind::len / Error::len / at / prepend_at / into_vec / flatten / multiple / new are proved on their real bodies against a tree oracle over the real datatype "
                      "(leaves, flat with full outer-to-inner paths); count = number of leaves, flatten yields exactly the leaves in order, idempotence and len(flatten)=len are proved lemmas.",
        "level_note": "Unit c04_syn_conversion adds: From<Error> for syn::Error (view of the result == one (span, message) diagnostic per flattened leaf, in order: spanned leaf -> kind text at its span, unspanned leaf -> call site + the whole leaf's text incl. its path), "
                      "write_errors, Error::span, IntoIterator (one level) + both next(), and the STRUCTURE of Display for Error (kind text, then ` at ` + locations joined by `/` iff a path exists). "
                      "Trusted: rewrite R2 (iterator adapter chains replaced by their defining loops / a verified model of iter::Map), syn::Error modelled as its list of diagnostics, Vec/String clone and extend contracts, message text of each kind (R11).",
        "design_ref": "DESIGN.md section 6 C04",
        "assumptions": [
            "R2: `items.iter().map(Error::len).sum()` and `errors.into_iter().flat_map(|error| ..).collect()` are replaced by their defining loops; the closure body is kept verbatim",
            "usize sums in len() need leaves <= usize::MAX (stated as a precondition)",
            "Vec<String>::clone yields an equal vector; Vec::extend(Vec) appends in order (std, assumed)",
            "syn::Error is an opaque value whose view is its list of (span, message) diagnostics: new = one element, combine = append, into_compile_error = a function of the list (syn 2.x error.rs)",
            "Span::call_site() is an uninterpreted constant; the conversion's input is `proper` (every bundle has >= 2 children: invariant of multiple/finish/flatten)",
            "std::iter::once / Once::next assumed; vec::IntoIter from vstd; `.map(syn::Error::from)` replaced by a verified model of iter::Map; `for x in it` written as its desugaring",
            "Display::fmt: write!(f, \"<lit>{}\", a) appends lit + Display text of a on Ok; [String]::join = join_spec; Formatter text uninterpreted",
        ],
        "not_covered": ["Display for ErrorKind (per-kind message text, R11)", "write_errors / emit under cfg(feature = \"diagnostics\")",
                        "the link display_spec::<Error> == text written by fmt is a stated hypothesis (display_is_fmt) of lemma_unspanned_diag_has_path, not proved"],
    },
    "C05": {
        "units": ["c05_accumulator", "l1_error_api"],
        "assumptions": [
            "std::thread::panicking() is read once and modelled as an uninterpreted boolean",
            "Vec::extend appends exactly what the iterator yields, in order (std contract, assumed as vec_extend)",
            "panic!() inside Drop is encoded as a returned DropOutcome value (rule R9) so that 'it panics' is a postcondition",
            "trait methods (Default::default, Extend::extend, Drop::drop) are verified as inherent functions with the same body (rule R15)",
        ],
        "not_covered": ["the panic message text (R11)", "interaction of the drop bomb with real unwinding"],
        "level_text": "Every Accumulator method body (sliced from core/src/error/mod.rs each run) is proved by Verus against a ghost-sequence "
                      "contract for all prior states, so every finite operation history is covered by induction over the per-method contracts "
                      "(lemma_history); drop's panic is a proved postcondition via panic-as-value.",
        "level_note": "Trusted: Verus/Z3; rewrite rules R1/R2/R9/R15 (DESIGN.md s4); Vec::extend and thread::panicking as assumed contracts; panic text not checked.",
        "design_ref": "DESIGN.md section 6 C05",
    },
}

L3_ASSUMPTIONS = [
    "programs are sampled, not proved: each receiver of the corpus is verified for ALL inputs, the corpus (count in coverage.programs) is drawn from the option grammar",
    "field types are abstract implementers of a client-view FromMeta trait: every conversion hook is a function of the item it is given and does not panic (prelude/l3.vrs)",
    "syn values (Meta, Lit, Path) are opaque; path text, spans and clone-equality are uninterpreted functions of the node",
    "user callables named in a declaration (with/map/and_then/default paths, Default impls) are external functions with uninterpreted spec twins",
    "pre-pass rewrites on emitted code: R14 (::darling -> crate::darling shim module), R7 (identity::<fn..>(f)(x) -> f(x)), R11 (format!(\"{}[{}]\") -> fmt_idx), R5 (match on &str -> if chain), R4 (function value -> annotated closure), R16 (alternates array bound to a local so its view can be stated)",
    "callee contracts of Error/Accumulator are those of prelude/error_api.vrs and prelude/acc_api.vrs, proved on the real bodies in units l1_error_api / c05_accumulator; unknown_field_with_alts is seen as `a bare leaf whose suggestion is a FUNCTION dym_spec(name, candidate names)` - exactly that shape is proved on the real body in unit c17_did_you_mean (witness function dym_fn, uniqueness lemma_dym_unique); add_sibling_alts_for_unknown_field is proved in c17_sibling_alts / c02_sibling_shape; both are used here at the slice instantiation (&[&str])",
    "the case-rule string function (ident_case) is not verified: expected names come from an independent Python implementation of the six rules",
]

for _p in PROPS.values():
    if _p.get("assumptions") == "L3":
        _p["assumptions"] = L3_ASSUMPTIONS

NOT_APPLICABLE = {
    "C20": "compilation success of emitted impls in a downstream crate is decided by rustc's type checker over generated programs; "
           "no pre/postcondition on darling's functions states or decides it, and sampling compile runs is a different technique family",
}
