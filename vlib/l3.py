"""L3: verify the code the working tree's derive *emits*, for receivers drawn from the option grammar.

descriptor -> (declaration for the real expander, oracle + contract template) ; the oracle is written from the
descriptor (i.e. from the property statements), never from darling's code.
"""
import json, os, random, re, subprocess

from . import compose as C

VERIF = C.VERIF
EXPAND = os.path.join(VERIF, "tools/expand/target/release/vexpand")
GEN = os.path.join(C.BUILD, "gen")

# ------------------------------------------------------------------------------------------------ case rules
# Independent implementation of the six documented rename rules (ident_case), on snake_case field names and
# PascalCase variant names.
RULES = [None, "lowercase", "PascalCase", "camelCase", "snake_case", "SCREAMING_SNAKE_CASE", "kebab-case"]


def rule_field(rule, name):
    if rule in (None, "lowercase", "snake_case"):
        return name
    if rule == "PascalCase":
        out, up = "", True
        for ch in name:
            if ch == "_":
                up = True
            elif up:
                out += ch.upper()
                up = False
            else:
                out += ch
        return out
    if rule == "camelCase":
        p = rule_field("PascalCase", name)
        return p[:1].lower() + p[1:]
    if rule == "SCREAMING_SNAKE_CASE":
        return name.upper()
    if rule == "kebab-case":
        return name.replace("_", "-")
    raise ValueError(rule)


def rule_variant(rule, name):
    if rule in (None, "PascalCase"):
        return name
    if rule == "lowercase":
        return name.lower()
    if rule == "camelCase":
        return name[:1].lower() + name[1:]
    snake = ""
    for i, ch in enumerate(name):
        if i > 0 and ch.isupper():
            snake += "_"
        snake += ch.lower()
    if rule == "snake_case":
        return snake
    if rule == "SCREAMING_SNAKE_CASE":
        return snake.upper()
    if rule == "kebab-case":
        return snake.replace("_", "-")
    raise ValueError(rule)


# ------------------------------------------------------------------------------------------------ expansion
def expander_dir():
    """tools/expand builds against /repo/core; for a private tree ($VERIF_REPO) a sibling crate is generated under build/."""
    if os.path.realpath(C.REPO) == "/repo":
        return os.path.join(VERIF, "tools/expand")
    import hashlib, shutil
    d = os.path.join(C.BUILD, "expand_" + hashlib.sha1(C.REPO.encode()).hexdigest()[:8])
    os.makedirs(os.path.join(d, "src"), exist_ok=True)
    src = os.path.join(VERIF, "tools/expand")
    shutil.copy(os.path.join(src, "src/main.rs"), os.path.join(d, "src/main.rs"))
    toml = open(os.path.join(src, "Cargo.toml")).read().replace('path = "/repo/core"', f'path = "{C.REPO}/core"')
    if not os.path.exists(os.path.join(d, "Cargo.toml")) or open(os.path.join(d, "Cargo.toml")).read() != toml:
        open(os.path.join(d, "Cargo.toml"), "w").write(toml)
    os.makedirs(os.path.join(d, ".cargo"), exist_ok=True)
    open(os.path.join(d, ".cargo/config.toml"), "w").write("[net]\noffline = true\n")
    return d


def ensure_expander():
    global EXPAND
    env = dict(os.environ, CARGO_NET_OFFLINE="true")
    d = expander_dir()
    EXPAND = os.path.join(d, "target/release/vexpand")
    lock = os.path.join(d, "Cargo.lock")
    if not os.path.exists(lock) and os.path.exists(os.path.join(C.REPO, "Cargo.lock")):
        import shutil
        shutil.copy(os.path.join(C.REPO, "Cargo.lock"), lock)
    p = subprocess.run(["cargo", "build", "--offline", "--release", "-q"], cwd=d, capture_output=True, text=True, env=env)
    if p.returncode != 0:
        raise C.ExtractionError("building tools/expand against /repo/core failed (working tree does not compile?):\n" + p.stderr[-3000:])


def prepass(text, log):
    """Mechanical rewrites of the emitted text before extraction (each logged)."""
    n = len(re.findall(r"::\s*(darling|syn)\s*::", text))
    text = re.sub(r"(?<![\w>])::\s*(darling|syn)\s*::", r"crate::\1::", text)
    log.append(f"R14:leading `::darling`/`::syn` -> `crate::darling`/`crate::syn` x{n}")
    pat = re.compile(r"crate::darling::export::identity::<\s*fn\(&crate::syn::Meta\)\s*->\s*crate::darling::Result<_>,?\s*>\(\s*([\w:]+?)\s*,?\s*\)\s*\(", re.S)
    text, k = pat.subn(r"\1(", text)
    if k:
        log.append(f"R7:identity::<fn(&Meta)->Result<_>>(f)(x) -> f(x) x{k}")
    text, k = re.subn(r"(crate::darling::export::NestedMeta::parse_meta_list\((?:[^()]|\([^()]*\))*\))\?",
                      r"(match \1 { Ok(__v) => __v, Err(__e) => { crate::__live_check(); return Err(crate::darling::Error::from_syn(__e)) } })", text)
    if k:
        log.append(f"R13b:`?` on a syn::Result made explicit (match + Error::from) x{k}")
    text, k = re.subn(r"let __items = &__items;", "let __items = __items.as_slice();", text)
    if k:
        log.append(f"R17:&Vec -> as_slice() x{k}")
    text, k = re.subn(r"(crate::darling::util::path_to_string\(__nested\.path\(\)\))\.as_ref\(\)", r"\1.as_str()", text)
    if k:
        log.append(f"R5b:String::as_ref() -> as_str() in match scrutinee x{k}")
    text, k = re.subn(r"crate::darling::export::identity::<\s*fn\(\)\s*->\s*crate::darling::Result<Self>\s*>\((\|\|[^;]*?)\)\(\)", r"(\1)()", text, flags=re.S)
    if k:
        log.append(f"R7b:identity::<fn()->Result<Self>>(closure)() -> (closure)() x{k}")
    text, k = re.subn(r"crate::darling::util::path_to_string\(\s*__attr\.path\(\)\s*\)", "crate::attr_path_string(__attr)", text)
    if k:
        log.append(f"R11b:path_to_string(attr.path()) -> attr_path_string(attr) (the attribute's name, a function of the attribute) x{k}")
    text, k = re.subn(r"crate::darling::export::identity::<\s*fn\(\)\s*->\s*crate::darling::(?:Result<Self>|export::Option<Self>)\s*>\(\s*([\w:]+)\s*\)\(\)", r"\1()", text)
    if k:
        log.append(f"R7:identity::<fn() -> T>(path)() -> path() x{k}")
    text, k = re.subn(r'&\s*format!\(\s*"((?:struct|enum) with )\{\}"\s*,\s*(\w+)\s*\)', r'&crate::fmt_with("\1", &\2)', text)
    if k:
        log.append(f"R11:format!(\"struct with {{}}\", set) -> fmt_with(prefix, &set) x{k}")
    text, k = re.subn(r'&\s*format!\(\s*"\{\}\[\{\}\]"\s*,\s*("[^"]*")\s*,\s*(\w+)\s*\)', r"&crate::fmt_idx(\1, \2)", text)
    if k:
        log.append(f"R11:format!(\"{{}}[{{}}]\", name, idx) -> fmt_idx(name, idx) x{k}")
    return text


def erase_with_span(text, log):
    """Span-erased slice (the view of C02, which says nothing about spans): every `.with_span(<expr>)` call of the emitted code is dropped.
    `with_span` changes nothing but the span field (contract proved on the real body in l1_error_api), so what is left is the same
    program as far as kinds, location paths, counts and order of errors go; the oracle of this view is built without spans as well."""
    out, i, k = [], 0, 0
    key = ".with_span("
    while True:
        j = text.find(key, i)
        if j < 0:
            out.append(text[i:])
            break
        out.append(text[i:j])
        depth, p = 1, j + len(key)
        while depth:
            c = text[p]
            depth += 1 if c == "(" else -1 if c == ")" else 0
            p += 1
        i = p
        k += 1
    log.append(f"R20:span-erased slice: `.with_span(..)` dropped x{k}")
    text, k2 = re.subn(r"\.map_err\(\s*\|\s*(\w+)\s*\|\s*\1\s*\)", "", "".join(out))
    if k2:
        log.append(f"R20b:`.map_err(|e| e)` left over by the erasure (identity) dropped x{k2}")
    return text


def expand_all(reqs):
    """reqs: [{id, trait, decl}] -> {id: {ok, path|error|panic, log}} ; writes build/gen/<id>.rs"""
    os.makedirs(GEN, exist_ok=True)
    p = subprocess.run([EXPAND], input=json.dumps(reqs), capture_output=True, text=True)
    if p.returncode != 0:
        raise C.ExtractionError("vexpand failed: " + p.stderr[-2000:])
    res = json.loads(p.stdout)
    out = {}
    for r in reqs:
        v = res[r["id"]]
        if not v.get("ok"):
            out[r["id"]] = v
            continue
        toks = v["tokens"]
        if toks.lstrip().startswith(":: core :: compile_error") or "compile_error !" in toks[:200]:
            out[r["id"]] = {"ok": False, "error": "derive emitted diagnostics: " + toks[:300]}
            continue
        f = subprocess.run(["rustfmt", "--edition", "2021", "--config", "max_width=160"], input=toks, capture_output=True, text=True)
        if f.returncode != 0:
            out[r["id"]] = {"ok": False, "error": "rustfmt: " + f.stderr[:500]}
            continue
        log = []
        text = prepass(f.stdout, log)
        if r.get("erase_spans"):
            text = erase_with_span(text, log)
        path = os.path.join(GEN, r["id"] + ".rs")
        open(path, "w").write(text)
        out[r["id"]] = {"ok": True, "path": path, "log": log}
    return out


# ------------------------------------------------------------------------------------------------ descriptors
def field(ident, rename=None, default=None, skip=False, multiple=False, flatten=False, with_=False, post=None):
    # skip="false": the option is written out as `skip = false`, which is the same as not writing it
    return {"ident": ident, "rename": rename, "default": default, "skip": skip is True, "skip_false": skip == "false", "multiple": multiple,
            "flatten": flatten, "with": with_, "post": post}


def struct_desc(name, fields, rename_all=None, cdefault=None, cpost=None, allow_unknown=False, trait="FromMeta", from_word=False, from_none=False):
    return {"kind": "struct", "name": name, "trait": trait, "fields": fields, "rename_all": rename_all,
            "cdefault": cdefault, "cpost": cpost, "allow_unknown": allow_unknown, "from_word": from_word, "from_none": from_none}


def hook_blocks(d, gen_id, n, tps, w):
    """Container-level `from_word = path` / `from_none = path`: the emitted hooks return exactly what the user's function returns."""
    ta = f"<{tps}>" if tps else ""
    for opt, fn, ret, spec in (("from_word", "from_word", "crate::darling::Result<Self>", "mkw"), ("from_none", "from_none", "crate::darling::export::Option<Self>", "mkn")):
        if d.get(opt):
            w(f"    //@fn @gen:{gen_id}.rs :: impl crate::darling::FromMeta for {n}{ta} :: fn {fn}")
            w(f"    pub fn {fn}() -> (r: {ret})")
            w(f"        ensures r == {spec}_{n}_spec::{ta if ta else '<>'}(),".replace("::<>", ""))
            w("    //@body")
            w("    //@end")


def hook_decls(d, n, tps, w):
    ta = f"<{tps}>" if tps else ""
    if d.get("from_word"):
        w(f"pub uninterp spec fn mkw_{n}_spec{ta}() -> Result<{n}{ta}>;")
        w(f"#[verifier::external_body] pub fn mkw_{n}{ta}() -> (r: Result<{n}{ta}>) ensures r == mkw_{n}_spec::{ta if ta else '<>'}() {{ unimplemented!() }}".replace("::<>", ""))
    if d.get("from_none"):
        w(f"pub uninterp spec fn mkn_{n}_spec{ta}() -> Option<{n}{ta}>;")
        w(f"#[verifier::external_body] pub fn mkn_{n}{ta}() -> (r: Option<{n}{ta}>) ensures r == mkn_{n}_spec::{ta if ta else '<>'}() {{ unimplemented!() }}".replace("::<>", ""))


def eff_name(d, f):
    return f["rename"] if f["rename"] is not None else rule_field(d["rename_all"], f["ident"])


def lit(s):
    return json.dumps(s)


def declaration(d):
    """The receiver declaration handed to the real derive."""
    if d["kind"] == "enum":
        return enum_declaration(d)
    if d["kind"] == "elem":
        return elem_declaration(d)
    if d["kind"] == "supports":
        return supports_declaration(d)
    if d["kind"] == "shape":
        return shape_declaration(d)
    n = d["name"]
    cattrs = []
    if d["rename_all"]:
        cattrs.append(f'rename_all = {lit(d["rename_all"])}')
    if d["cdefault"] == "trait":
        cattrs.append("default")
    elif d["cdefault"] == "path":
        cattrs.append(f"default = mk_{n}")
    if d["cpost"] == "map":
        cattrs.append(f"map = map_{n}")
    elif d["cpost"] == "and_then":
        cattrs.append(f"and_then = fix_{n}")
    if d["allow_unknown"]:
        cattrs.append("allow_unknown_fields")
    if d.get("from_word"):
        cattrs.append(f"from_word = mkw_{n}")
    if d.get("from_none"):
        cattrs.append(f"from_none = mkn_{n}")
    tps = ", ".join(f"T{i}" for i in range(len(d["fields"])))
    out = ""
    if cattrs:
        out += f"#[darling({', '.join(cattrs)})] "
    out += f"struct {n}<{tps}> {{ "
    for i, f in enumerate(d["fields"]):
        a = []
        if f["rename"] is not None:
            a.append(f'rename = {lit(f["rename"])}')
        if f["default"] == "trait":
            a.append("default")
        elif f["default"] == "path":
            a.append(f"default = mk_{i}")
        if f["skip"]:
            a.append("skip")
        elif f.get("skip_false"):
            a.append("skip = false")
        if f["multiple"]:
            a.append("multiple")
        if f["flatten"]:
            a.append("flatten")
        if f["with"]:
            a.append(f"with = conv_{i}")
        if f["post"] == "map":
            a.append(f"map = post_{i}")
        elif f["post"] == "and_then":
            a.append(f"and_then = chk_{i}")
        if a:
            out += f"#[darling({', '.join(a)})] "
        ty = f"Vec<T{i}>" if f["multiple"] else f"T{i}"
        out += f"{f['ident']}: {ty}, "
    out += "}"
    return out


DISCIPLINE = [
    "    //@ head: let ghost mut __live: int = 0;",
    "    //@ replace R13a opt: crate::darling::Error::accumulator() ==> { proof { __live = __live + 1; } crate::darling::Error::accumulator() }",
    "    //@ replace R13f opt: __errors.finish() ==> { proof { __live = __live - 1; } __errors.finish() }",
    "    //@ replace R13c opt: crate::__live_check(); ==> proof { assert(__live == 0); }",
    "    //@ guard_try: __live == 0",
    "    //@ pre_tail: proof { assert(__live == 0); }",
]


# ------------------------------------------------------------------------------------------------ oracle text
def default_kind(d, f):
    """Which default expression the statement of C01 prescribes for a field that ends up without a value."""
    if f["default"] == "path":
        return "path"
    if f["default"] == "trait":
        return "trait"
    if d["cdefault"]:
        return "inherit"
    if f["skip"]:
        return "trait"
    return None


def struct_template(d, gen_id, mode="full", ctx=None):
    """ctx (enum struct variant): {loop, match, closure, occ_for, occ_alts, targs: [actual type param names], located: name}"""
    n = d["name"]
    F = d["fields"]
    N = len(F)
    tps = ", ".join(f"T{i}" for i in range(N))
    addressable = [i for i, f in enumerate(F) if not f["skip"] and not f["flatten"]]
    names = [eff_name(d, F[i]) for i in addressable]
    flat = next((i for i, f in enumerate(F) if f["flatten"]), None)
    names_seq = "seq![" + ", ".join(f"{lit(x)}@" for x in names) + "]"
    names_arr = "&[" + ", ".join(lit(x) for x in names) + "]"

    def ety(i):
        return f"T{i}"

    def fty(i):
        return f"Vec<T{i}>" if F[i]["multiple"] else f"T{i}"

    # bounds: conversion for every non-skipped field, Default where the declaration asks the trait for a value
    def bounds(i):
        # over-approximate: which bounds the emitted impl really needs is C19/C20's question, not this unit's
        return ["FromMeta", "darling::export::Default"]
    impl_gen = ", ".join(f"T{i}" + (": " + " + ".join(bounds(i)) if bounds(i) else "") for i in range(N))
    o = []
    w = o.append
    w(f"// ===== receiver {n}: {json.dumps(d)}")
    magic = (ctx or {}).get("magic", [])
    w(f"pub struct {n}<{tps}> {{ " + " ".join(f"pub {mi}: {mt}," for mi, mt in magic) + " " + " ".join(f"pub {f['ident']}: {fty(i)}," for i, f in enumerate(F)) + " }")
    if magic:
        w(f"pub struct Magic{n} {{ " + " ".join(f"pub {mi}: {mt}," for mi, mt in magic) + " }")
    # user callables
    for i, f in enumerate(F):
        if f["with"]:
            w(f"pub uninterp spec fn conv_{i}_spec<T>(m: Meta) -> Result<T>;")
            w(f"#[verifier::external_body] pub fn conv_{i}<T>(m: &Meta) -> (r: Result<T>) ensures r == conv_{i}_spec::<T>(*m) {{ unimplemented!() }}")
        if f["post"] == "map":
            w(f"pub uninterp spec fn post_{i}_spec<T>(x: T) -> T;")
            w(f"#[verifier::external_body] pub fn post_{i}<T>(x: T) -> (r: T) ensures r == post_{i}_spec(x) {{ unimplemented!() }}")
        if f["post"] == "and_then":
            w(f"pub uninterp spec fn chk_{i}_spec<T>(x: T) -> Result<T>;")
            w(f"#[verifier::external_body] pub fn chk_{i}<T>(x: T) -> (r: Result<T>) ensures r == chk_{i}_spec(x) {{ unimplemented!() }}")
        if f["default"] == "path":
            w(f"pub uninterp spec fn mk_{i}_spec<T>() -> T;")
            w(f"#[verifier::external_body] pub fn mk_{i}<T>() -> (r: T) ensures r == mk_{i}_spec::<T>() {{ unimplemented!() }}")
    if d["cdefault"] == "path":
        w(f"pub uninterp spec fn mk_{n}_spec<{tps}>() -> {n}<{tps}>;")
        w(f"#[verifier::external_body] pub fn mk_{n}<{tps}>() -> (r: {n}<{tps}>) ensures r == mk_{n}_spec::<{tps}>() {{ unimplemented!() }}")
    if d["cdefault"] == "trait":
        w(f"pub uninterp spec fn dflt_{n}_spec<{tps}>() -> {n}<{tps}>;")
        w(f"impl<{tps}> darling::export::Default for {n}<{tps}> {{")
        w(f"    open spec fn default_spec() -> Self {{ dflt_{n}_spec::<{tps}>() }}")
        w(f"    #[verifier::external_body] fn default() -> (r: Self) {{ unimplemented!() }}")
        w("}")
    if d["cpost"] == "map":
        w(f"pub uninterp spec fn map_{n}_spec<{tps}>(x: {n}<{tps}>) -> {n}<{tps}>;")
        w(f"#[verifier::external_body] pub fn map_{n}<{tps}>(x: {n}<{tps}>) -> (r: {n}<{tps}>) ensures r == map_{n}_spec(x) {{ unimplemented!() }}")
    if not ctx:
        hook_decls(d, n, tps, w)
    if d["cpost"] == "and_then":
        w(f"pub uninterp spec fn fix_{n}_spec<{tps}>(x: {n}<{tps}>) -> Result<{n}<{tps}>>;")
        w(f"#[verifier::external_body] pub fn fix_{n}<{tps}>(x: {n}<{tps}>) -> (r: Result<{n}<{tps}>>) ensures r == fix_{n}_spec(x) {{ unimplemented!() }}")

    # oracle state
    slots = []
    for i, f in enumerate(F):
        slots.append(f"pub s{i}: Seq<T{i}>," if f["multiple"] else f"pub s{i}: (bool, Option<T{i}>),")
    w(f"pub struct St{n}<{tps}> {{ " + " ".join(slots) + " pub flat: Seq<NestedMeta>, pub errs: Seq<Error> }")
    gen_bounds = ", ".join(f"T{i}" + (": " + " + ".join(bounds(i)) if bounds(i) else "") for i in range(N))
    init = ", ".join((f"s{i}: Seq::empty()" if f["multiple"] else f"s{i}: (false, None)") for i, f in enumerate(F))
    w(f"pub open spec fn init_{n}<{gen_bounds}>() -> St{n}<{tps}> {{ St{n} {{ {init + ', ' if init else ''}flat: Seq::empty(), errs: Seq::empty() }} }}")

    # per-field conversion: with/type converter, then map / and_then  (C01)
    for i in addressable:
        f = F[i]
        base = f"conv_{i}_spec::<T{i}>(m)" if f["with"] else f"T{i}::meta_spec(m)"
        if f["post"] == "map":
            body = f"match {base} {{ Ok(v) => Ok(post_{i}_spec(v)), Err(e) => Err(e) }}"
        elif f["post"] == "and_then":
            body = f"match {base} {{ Ok(v) => chk_{i}_spec(v), Err(e) => Err(e) }}"
        else:
            body = base
        w(f"pub open spec fn cv{i}_{n}<{gen_bounds}>(m: Meta) -> Result<T{i}> {{ {body} }}")

    # step: one meta item (C01 dispatch by effective name, C02 one error per mistake, C03 span of the item)
    w(f"pub open spec fn step_{n}<{gen_bounds}>(st: St{n}<{tps}>, item: NestedMeta) -> St{n}<{tps}> {{")
    w("    match item {")
    w('        NestedMeta::Lit(l) => St%s { errs: st.errs.push(e_with_span(e_format("literal"@), lit_span(l))), ..st },' % n)
    w("        NestedMeta::Meta(m) => {")
    chain = ""
    for i in addressable:
        f = F[i]
        nm = lit(eff_name(d, f))
        if f["multiple"]:
            arm = (f"match cv{i}_{n}::<{tps}>(m) {{ Ok(v) => St{n} {{ s{i}: st.s{i}.push(v), ..st }}, "
                   f"Err(e) => St{n} {{ errs: st.errs.push(e_at(e_with_span(e, meta_span(m)), idx_loc({nm}@, st.s{i}.len()))), ..st }} }}")
        else:
            arm = (f"if !st.s{i}.0 {{ match cv{i}_{n}::<{tps}>(m) {{ Ok(v) => St{n} {{ s{i}: (true, Some(v)), ..st }}, "
                   f"Err(e) => St{n} {{ s{i}: (true, None), errs: st.errs.push(e_at(e_with_span(e, meta_span(m)), {nm}@)), ..st }} }} }} "
                   f"else {{ St{n} {{ errs: st.errs.push(e_with_span(e_dup({nm}@), meta_span(m))), ..st }} }}")
        chain += f"            {'if' if not chain else 'else if'} meta_name(m) == {nm}@ {{ {arm} }}\n"
    if flat is not None:
        unk = f"St{n} {{ flat: st.flat.push(NestedMeta::Meta(m)), ..st }}"
    elif d["allow_unknown"]:
        unk = "st"
    elif names:
        unk = f"St{n} {{ errs: st.errs.push(e_with_span(e_unknown_alts(meta_name(m), {names_seq}), meta_span(m))), ..st }}"
    else:
        unk = f"St{n} {{ errs: st.errs.push(e_with_span(e_unknown(meta_name(m)), meta_span(m))), ..st }}"
    if chain:
        w(chain + f"            else {{ {unk} }}")
    else:
        w(f"            {unk}")
    w("        }")
    w("    }")
    w("}")
    w(f"pub open spec fn run_from_{n}<{gen_bounds}>(st: St{n}<{tps}>, items: Seq<NestedMeta>) -> St{n}<{tps}> decreases items.len() {{")
    w(f"    if items.len() == 0 {{ st }} else {{ step_{n}::<{tps}>(run_from_{n}::<{tps}>(st, items.drop_last()), items.last()) }}")
    w("}")
    w(f"pub open spec fn run_{n}<{gen_bounds}>(items: Seq<NestedMeta>) -> St{n}<{tps}> {{ run_from_{n}::<{tps}>(init_{n}::<{tps}>(), items) }}")

    # finish: flatten hand-off, presence checks in declaration order, verdict (C01 defaults, C02 missing fields)
    w(f"pub open spec fn chk_{n}<{gen_bounds}>(st0: St{n}<{tps}>) -> St{n}<{tps}> {{")
    cur = "st0"
    k = 0
    if flat is not None:
        k += 1
        err = f"e_sibling_alts(e, {names_seq})" if names else "e"
        w(f"    let st{k} = match T{flat}::list_spec({cur}.flat) {{ Ok(v) => St{n} {{ s{flat}: (true, Some(v)), ..{cur} }}, "
          f"Err(e) => St{n} {{ s{flat}: (true, None), errs: {cur}.errs.push({err}), ..{cur} }} }};")
        cur = f"st{k}"
    for i, f in enumerate(F):
        if f["multiple"] or default_kind(d, f) is not None:
            continue
        if f["skip"]:
            continue
        k += 1
        nm = lit(eff_name(d, f))
        w(f"    let st{k} = if !{cur}.s{i}.0 {{ match T{i}::none_spec() {{ Some(v) => St{n} {{ s{i}: ({cur}.s{i}.0, Some(v)), ..{cur} }}, "
          f"None => St{n} {{ errs: {cur}.errs.push(e_missing({nm}@)), ..{cur} }} }} }} else {{ {cur} }};")
        cur = f"st{k}"
    w(f"    {cur}")
    w("}")
    mg_p = f", mg: Magic{n}" if magic else ""
    w(f"pub open spec fn val_{n}<{gen_bounds}>(st: St{n}<{tps}>{mg_p}) -> {n}<{tps}> {{")
    cur = "st"
    if d["cdefault"] == "trait":
        w(f"        let dflt = dflt_{n}_spec::<{tps}>();")
    elif d["cdefault"] == "path":
        w(f"        let dflt = mk_{n}_spec::<{tps}>();")
    inits = []
    for i, f in enumerate(F):
        dk = default_kind(d, f)
        dv = {"path": f"mk_{i}_spec::<{fty(i)}>()", "trait": f"<{fty(i)} as darling::export::Default>::default_spec()",
              "inherit": f"dflt.{f['ident']}", None: None}[dk]
        if f["multiple"]:
            if dv:
                inits.append(f"{f['ident']}: if {cur}.s{i}.len() > 0 {{ vec_of({cur}.s{i}) }} else {{ {dv} }}")
            else:
                inits.append(f"{f['ident']}: vec_of({cur}.s{i})")
        else:
            if dv:
                inits.append(f"{f['ident']}: if {cur}.s{i}.1 is Some {{ {cur}.s{i}.1->0 }} else {{ {dv} }}")
            else:
                inits.append(f"{f['ident']}: {cur}.s{i}.1->0")
    inits = [f"{mi}: mg.{mi}" for mi, _ in magic] + inits
    val = f"{n} {{ " + ", ".join(inits) + " }"
    w(f"        {val}")
    w("}")
    cp = {"map": f"Ok(map_{n}_spec(v))", "and_then": f"fix_{n}_spec(v)", None: "Ok(v)"}[d["cpost"]]
    if not magic:
        w(f"pub open spec fn fin0_{n}<{gen_bounds}>(st0: St{n}<{tps}>) -> Result<{n}<{tps}>> {{")
        w(f"    let s = chk_{n}::<{tps}>(st0); if s.errs.len() > 0 {{ Err(e_multiple(s.errs)) }} else {{ Ok(val_{n}::<{tps}>(s)) }}")
        w("}")
        w(f"pub open spec fn fin_{n}<{gen_bounds}>(st0: St{n}<{tps}>) -> Result<{n}<{tps}>> {{ match fin0_{n}::<{tps}>(st0) {{ Ok(v) => {cp}, Err(e) => Err(e) }} }}")

    # invariant linking locals to the oracle state of the consumed prefix
    eqs = []
    safe = [f"({f['ident']}.0 && {f['ident']}.1 is None ==> __errors.errs().len() > 0) && ({f['ident']}.1 is Some ==> {f['ident']}.0)" for f in F if not f["multiple"]]
    for i, f in enumerate(F):
        if mode == "err":
            # C02 view: which value a field holds is C01's business; only presence / count can influence errors
            if f["multiple"]:
                eqs.append(f"{f['ident']}@.len() == st.s{i}.len()")
            else:
                eqs.append(f"{f['ident']}.0 == st.s{i}.0 && ({f['ident']}.1 is Some) == (st.s{i}.1 is Some)")
        elif f["multiple"]:
            eqs.append(f"{f['ident']}@ =~= st.s{i}")
        else:
            eqs.append(f"{f['ident']} == st.s{i}")

    locs = ", ".join(f"{f['ident']}: " + (f"Vec<T{i}>" if f["multiple"] else f"(bool, Option<T{i}>)") for i, f in enumerate(F))
    call = ", ".join(f["ident"] for f in F)
    link = eqs + (["__flatten@ =~= st.flat"] if flat is not None else []) + ["__errors.errs() =~= st.errs"]
    if mode == "success":
        # C01 view: only mistake-free prefixes are tracked; what happens after a mistake is C02's business
        inv = " && ".join(["__errors.armed()"] + safe + ["(st.errs.len() == 0 ==> " + " && ".join(link) + ")"])
    else:
        inv = " && ".join(link + ["__errors.armed()"] + safe)
    flat_p = ", __flatten: Vec<NestedMeta>" if flat is not None else ""
    flat_a = ", __flatten" if flat is not None else ""
    w(f"pub open spec fn inv_{n}<{gen_bounds}>(st: St{n}<{tps}>, {locs + ', ' if locs else ''}{flat_p.lstrip(', ') + ', ' if flat_p else ''}__errors: Accumulator) -> bool {{ {inv} }}")

    L = ctx["loop"] if ctx else 0
    M = ctx["match"] if ctx else 0
    CB = ctx["closure"] if ctx else 0
    occ_for = f" @{ctx['occ_for']}" if ctx else ""
    occ_alts = f" @{ctx['occ_alts']}" if ctx else ""
    D = []
    elem = bool(ctx and ctx.get("elem"))
    if elem:
        D.append(f"    //@ replace R6n{occ_for}: for __item in __items ==> for __item in __it{L}: __items.as_slice()")
        D.append(f"    //@ loop {L} spec: invariant inv_{n}::<{tps}>(run_from_{n}::<{tps}>({ctx['start']}, __items@.take(__it{L}.index@ as int)), {call + ', ' if call else ''}{flat_a.lstrip(', ') + ', ' if flat_a else ''}__errors){ctx['extra_inv']},")
    else:
        D.append(f"    //@ replace R6n{occ_for}: for __item in __items ==> for __item in __it{L}: __items")
        D.append(f"    //@ loop {L} spec: invariant inv_{n}::<{tps}>(run_{n}::<{tps}>(__items@.take(__it{L}.index@ as int)), {call + ', ' if call else ''}{flat_a.lstrip(', ') + ', ' if flat_a else ''}__errors),")
    D.append(f"    //@ loop {L} head: proof {{ assert(__items@.take(__it{L}.index@ + 1).drop_last() == __items@.take(__it{L}.index@ as int)); }}")
    D.append(f"    //@ loop {L} after: proof {{ assert(__items@.take(__items@.len() as int) == __items@); }}")
    if addressable:
        D.append(f"    //@ match_str {M} opt")     # opt: an emitted body WITHOUT the name dispatch is decided by the loop invariant, not a lost anchor
    if flat is None and not d["allow_unknown"] and names:
        D.append(f"    //@ replace R16{occ_alts}: unknown_field_with_alts(__other, &[$$]) ==> unknown_field_with_alts(__other, {{ let __alts: &[&str] = &[$1]; proof {{ assert(strs(__alts@) =~= {names_seq}); }} __alts }})")
    if flat is not None:
        D.append("    //@ replace R4v: vec![] ==> Vec::new()")
        D.append("    //@ replace R17: from_list(&__flatten) ==> from_list(__flatten.as_slice())")
    for i in addressable:
        f = F[i]
        nm = lit(eff_name(d, f))
        if f["post"] == "map":
            D.append(f"    //@ replace R4: .map(post_{i}) ==> .map(|__x: T{i}| -> (r: T{i}) ensures r == post_{i}_spec(__x) {{ post_{i}(__x) }})")
        if f["post"] == "and_then":
            D.append(f"    //@ replace R4: .and_then(chk_{i}) ==> .and_then(|__x: T{i}| -> (r: Result<T{i}>) ensures r == chk_{i}_spec(__x) {{ chk_{i}(__x) }})")
        loc = f"idx_loc({nm}@, __len as nat)" if f["multiple"] else f"{nm}@"
    if addressable:
        # R3: the per-field extractor's error closure gets a typed header that restates its own body in spec terms - derived from the code
        # (any parameter name, any arm order); whether the location and the span are the RIGHT ones is decided by the invariant against the oracle
        D.append("    //@ replace R3 opt: .map_err(|$_| $_.with_span(&__inner).at($_)) ==> .map_err(|$1: Error| -> (r: Error) ensures r == e_at(e_with_span($1, meta_span(*__inner)), display_spec($3)) { $2.with_span(&__inner).at($3) })")
        D.append("    //@ replace R3 opt: .map_err(|$_| $_.at($_)) ==> .map_err(|$1: Error| -> (r: Error) ensures r == e_at($1, display_spec($3)) { $2.at($3) })")
        D.append("    //@ replace R3 opt: .map_err(|$_| $_.with_span(&__inner).at(&crate::fmt_idx($_, __len))) ==> .map_err(|$1: Error| -> (r: Error) ensures r == e_at(e_with_span($1, meta_span(*__inner)), idx_loc($3@, __len as nat)) { $2.with_span(&__inner).at(&crate::fmt_idx($3, __len)) })")
        D.append("    //@ replace R3 opt: .map_err(|$_| $_.at(&crate::fmt_idx($_, __len))) ==> .map_err(|$1: Error| -> (r: Error) ensures r == e_at($1, idx_loc($3@, __len as nat)) { $2.at(&crate::fmt_idx($3, __len)) })")
    nclos = len(addressable)
    if flat is not None and names:
        D.append(f"    //@ closure {CB + nclos}: |e: Error| -> (r: Error) ensures r == e_sibling_alts(e, {names_seq})")
        D.append(f"    //@ replace R16: add_sibling_alts_for_unknown_field(&[$$]) ==> add_sibling_alts_for_unknown_field({{ let __alts: &[&str] = &[$1]; proof {{ assert(strs(__alts@) =~= {names_seq}); }} __alts }})")
        nclos += 1
    if elem:
        if d["cpost"] == "and_then":
            D.append(f"    //@ replace R4: .and_then(fix_{n}) ==> .and_then(|__x: {n}<{tps}>| -> (r: Result<{n}<{tps}>>) ensures r == fix_{n}_spec(__x) {{ fix_{n}(__x) }})")
        if d["cpost"] == "map":
            D.append(f"    //@ replace R4: .map(map_{n}) ==> .map(|__x: {n}<{tps}>| -> (r: {n}<{tps}>) ensures r == map_{n}_spec(__x) {{ map_{n}(__x) }})")
        text = "\n".join(o)
        if N == 0:
            text = text.replace("::<>", "").replace("<>", "")
            D = [x.replace("::<>", "").replace("<>", "") for x in D]
        return text, D, {"nclos": nclos, "addressable": addressable, "tps": tps, "gen_bounds": gen_bounds, "impl_gen": impl_gen, "call": call,
                         "flat_a": flat_a, "locs": locs, "flat_p": flat_p, "cp": cp, "names": names}
    if ctx:
        D.append(f"    //@ closure {CB + nclos}: |e: Error| -> (r: Error) ensures r == e_at(e, {lit(ctx['located'])}@)")
        nclos += 1
        ta = ctx["targs"]
        D = [re.sub(r"\bT(\d+)\b", lambda m: ta[int(m.group(1))], x) for x in D]
        text = "\n".join(o)
        if N == 0:
            text = text.replace("::<>", "").replace("<>", "")
            D = [x.replace("::<>", "").replace("<>", "") for x in D]
        return text, D, {"nclos": nclos, "has_alts": flat is None and not d["allow_unknown"] and bool(names), "addressable": addressable, "tps": tps}
    if d["cpost"] == "and_then":
        D.append(f"    //@ replace R4: .and_then(fix_{n}) ==> .and_then(|__x: {n}<{tps}>| -> (r: Result<{n}<{tps}>>) ensures r == fix_{n}_spec(__x) {{ fix_{n}(__x) }})")
    if d["cpost"] == "map":
        D.append(f"    //@ replace R4: .map(map_{n}) ==> .map(|__x: {n}<{tps}>| -> (r: {n}<{tps}>) ensures r == map_{n}_spec(__x) {{ map_{n}(__x) }})")

    # the real emitted function under contract
    w(f"impl<{impl_gen}> {n}<{tps}> {{")
    w(f"    //@fn @gen:{gen_id}.rs :: impl crate::darling::FromMeta for {n}<{tps}> :: fn from_list")
    w("    #[verifier::loop_isolation(false)]")
    w(f"    pub fn from_list(__items: &[crate::darling::export::NestedMeta]) -> (r: crate::darling::Result<Self>)")
    if mode == "success":
        w(f"        ensures fin_{n}::<{tps}>(run_{n}::<{tps}>(__items@)) is Ok ==> r == fin_{n}::<{tps}>(run_{n}::<{tps}>(__items@)),")
    elif mode == "err":
        okc = "true" if d["cpost"] == "and_then" else "r is Ok"
        w(f"        ensures match fin0_{n}::<{tps}>(run_{n}::<{tps}>(__items@)) {{ Err(e) => r == Err::<Self, Error>(e), Ok(_) => {okc} }},")
    else:
        w(f"        ensures r == fin_{n}::<{tps}>(run_{n}::<{tps}>(__items@)),")
    w("    //@body")
    for x in D + DISCIPLINE:
        w(x)
    w("    //@end")
    hook_blocks(d, gen_id, n, tps, w)
    w("}")
    text = "\n".join(o)
    if N == 0:
        text = text.replace("::<>", "").replace("<>", "")
    return text


HEADER = """// L3 unit {unit}: code emitted by the working tree's derive for the receiver(s) below, verified for all inputs
// against an oracle generated from the receiver descriptor.
use vstd::prelude::*;
use std::fmt;
verus! {{
//@include prelude/base.vrs
//@include prelude/ext_axioms.vrs
//@include prelude/error_types.vrs
//@include prelude/std_assumed.vrs
//@include prelude/broadcast_all.vrs
//@include prelude/error_api_specs.vrs
//@include prelude/error_api.vrs stubs
//@include prelude/acc_api.vrs stubs
//@include prelude/l3.vrs
//@include prelude/l3_elem.vrs
//@include prelude/l3_shims.vrs
"""
FOOTER = "\n} // verus!\nfn main() {}\n"


def make_unit(unit, d, mode="full", unit_span=False):
    from . import driver as D
    if d["kind"] == "supports":
        foot = ("\n} // verus!\n"
                "impl fmt::Display for Shape { fn fmt(&self, f: &mut fmt::Formatter<'_>) -> fmt::Result { Shape::fmt(self, f) } }\n"
                "impl fmt::Display for ShapeSet { fn fmt(&self, f: &mut fmt::Formatter<'_>) -> fmt::Result { ShapeSet::fmt(self, f) } }\n"
                "fn main() {}\n")
        return D.expand_includes(SUPPORTS_HEADER.format(unit=unit) + supports_template(d, unit) + foot)
    hdr = HEADER.format(unit=unit)
    if unit_span:
        hdr = hdr.replace("//@include prelude/base.vrs", "//@include prelude/base_unitspan.vrs")
    body = shape_template(d, unit) if d["kind"] == "shape" else enum_template(d, unit, mode) if d["kind"] == "enum" else (elem_template(d, unit, mode) if d["kind"] == "elem" else struct_template(d, unit, mode))
    if unit_span:
        body = body.replace("e_with_span(", "e_nospan(")
    text = hdr + body + FOOTER
    return D.expand_includes(text)


# ------------------------------------------------------------------------------------------------ corpus
def quick_structs():
    f = field
    return [
        struct_desc("R0", [f("first_one"), f("b", default="trait"), f("c", multiple=True, rename="my_cs"), f("d", skip=True)], rename_all="camelCase"),
        struct_desc("R1", [f("a", with_=True, post="map"), f("b", default="path", post="and_then"), f("c", flatten=True), f("d", skip=True, default="path")],
                    cdefault="trait", cpost="and_then", allow_unknown=True),
        struct_desc("R2", [f("x"), f("y")], allow_unknown=True),
        struct_desc("R3", [f("lorem_ipsum", flatten=True), f("dolor_sit")], rename_all="SCREAMING_SNAKE_CASE"),
        struct_desc("R4", [f("a", skip=True), f("b", default="trait")], cdefault="path"),
        struct_desc("R5", [f("items", multiple=True, default="path"), f("more", multiple=True, default="trait"), f("z")]),
        struct_desc("R6", [f("a", default="trait", post="and_then"), f("b", with_=True)], cpost="map"),
        struct_desc("R7", [f("only_flat", flatten=True)]),
        struct_desc("R8", [f("s", skip=True)]),
        struct_desc("R9", [f("my_field", rename="other_name"), f("your_field")], rename_all="kebab-case"),
        struct_desc("R10", [f("a"), f("b"), f("c"), f("d"), f("e")], rename_all="PascalCase"),
        struct_desc("R11", [f("a", with_=True, post="and_then", multiple=True), f("b", with_=True, default="path")], cdefault="trait"),
        struct_desc("R12", [], allow_unknown=False),
        struct_desc("R13", [f("a", multiple=True), f("rest", flatten=True)], cpost="map"),
        struct_desc("R14", [f("a"), f("b", default="trait")], from_word=True, from_none=True),
        struct_desc("R15", [f("host", skip="false"), f("port", skip="false", default="trait"), f("c", skip=True), f("plain")]),     # `plain` keeps the name dispatch alive when `skip = false` is misread (C01_r7m1)
    ]


def run_descs(descs, tier="quick", canaries=("head",), mode="full", unit_span=False):
    """Expand, compose and verify each descriptor as its own unit. -> list[UnitResult]"""
    from . import driver as D
    import concurrent.futures as cf
    ensure_expander()
    reqs = [{"id": f"l3_{d['name']}", "trait": d["trait"], "decl": declaration(d), "erase_spans": unit_span} for d in descs]
    ex = expand_all(reqs)
    jobs = []
    results = []
    for d in descs:
        uid = f"l3_{d['name']}"
        e = ex[uid]
        meta = {"descriptor": d, "declaration": declaration(d)}
        if not e.get("ok"):
            u = D.UnitResult(uid)
            u.status = "undecided"
            u.reason = "expander: " + (e.get("error") or ("derive panicked: " + e.get("panic", "")))
            u.meta = meta
            u.derive_panic = e.get("panic")
            results.append(u)
            continue
        meta["prepass"] = e["log"]
        meta["mode"] = mode + ("+unit-span" if unit_span else "")
        jobs.append((uid, make_unit(uid, d, mode, unit_span), meta))
    with cf.ThreadPoolExecutor(max_workers=int(os.environ.get("VERIF_JOBS", "14"))) as pool:
        futs = [pool.submit(D.run_unit, n, t, tier, canaries, None, m) for n, t, m in jobs]
        results += [x.result() for x in futs]
    return results


def random_struct(rng, name):
    nf = rng.randint(1, 5)
    fields = []
    have_flat = False
    idents = ["alpha", "beta_two", "gamma", "delta_four_x", "eps"]
    for i in range(nf):
        kind = rng.choice(["plain", "plain", "default_t", "default_p", "skip", "multiple", "flatten", "with", "post"])
        f = field(idents[i])
        if kind == "flatten" and not have_flat:
            f["flatten"] = True
            have_flat = True
        elif kind == "skip":
            f["skip"] = True
            if rng.random() < 0.5:
                f["default"] = rng.choice(["trait", "path"])
        else:
            if kind == "default_t":
                f["default"] = "trait"
            if kind == "default_p":
                f["default"] = "path"
            if kind == "multiple" or rng.random() < 0.15:
                f["multiple"] = True
            if kind == "with" or rng.random() < 0.2:
                f["with"] = True
            if kind == "post" or rng.random() < 0.2:
                f["post"] = rng.choice(["map", "and_then"])
            if rng.random() < 0.25:
                f["rename"] = rng.choice(["renamed", "x", "Other_Name"]) + str(i)
            if f["multiple"] and rng.random() < 0.3:
                f["default"] = rng.choice(["trait", "path"])
        fields.append(f)
    return struct_desc(name, fields, rename_all=rng.choice(RULES), cdefault=rng.choice([None, None, "trait", "path"]),
                       cpost=rng.choice([None, None, "map", "and_then"]), allow_unknown=rng.random() < 0.3,
                       from_word=rng.random() < 0.15, from_none=rng.random() < 0.15)


def pair_structs():
    """Every ordered pair of field-option kinds on a two-field receiver (C01 why_tests_cant: untested pairs)."""
    kinds = {
        "plain": {}, "rename": {"rename": "nm"}, "default_t": {"default": "trait"}, "default_p": {"default": "path"},
        "skip": {"skip": True}, "skip_dp": {"skip": True, "default": "path"}, "multiple": {"multiple": True},
        "multiple_d": {"multiple": True, "default": "trait"}, "flatten": {"flatten": True}, "with": {"with": True},
        "map": {"post": "map"}, "and_then": {"post": "and_then"}, "with_map": {"with": True, "post": "map"},
    }
    out = []
    k = 0
    for a, ka in kinds.items():
        for b, kb in kinds.items():
            if ka.get("flatten") and kb.get("flatten"):
                continue
            fa = field("first_f"); fa.update(ka)
            fb = field("second_f"); fb.update(kb)
            if fa["rename"]:
                fa["rename"] = "nm_a"
            if fb["rename"]:
                fb["rename"] = "nm_b"
            out.append(struct_desc(f"P{k}", [fa, fb], rename_all=RULES[k % len(RULES)], cdefault=[None, "trait", "path"][k % 3],
                                   cpost=[None, "map", "and_then", None][k % 4], allow_unknown=(k % 5 == 0)))
            k += 1
    return out


CORPORA = {
    "structs": lambda tier, seed: quick_structs() + ([] if tier == "quick" else pair_structs() + [random_struct(random.Random(seed * 1000 + i), f"Z{i}") for i in range(40)]),
}


def expected_fns(d):
    """Which methods the emitted impl must define (C09: bare-word form only through a declared word variant)."""
    if d["kind"] == "enum":
        fns = {"from_list", "from_string"}
        if any(v["word"] is True and not v["skip"] for v in d["variants"]) or d.get("from_word"):
            fns.add("from_word")
        if d.get("from_none"):
            fns.add("from_none")
        return fns
    if d["kind"] == "shape":
        return {"from_word"} if d["shape"] == "unit" else {"from_meta"}
    if d["kind"] == "struct":
        return {"from_list"} | ({"from_word"} if d.get("from_word") else set()) | ({"from_none"} if d.get("from_none") else set())
    return None


def units_for(corpus, tier, seed, mode="full", unit_span=False, prefix="l3"):
    """-> [(unit name, template | None, meta)] ready for driver.run_unit (template None = derive did not emit code)."""
    ensure_expander()
    descs = CORPORA[corpus](tier, seed)
    tag = {"full": "f", "success": "s", "err": "e"}[mode] + ("u" if unit_span else "")
    reqs = [{"id": f"{prefix}{tag}_{d['name']}", "trait": d["trait"], "decl": declaration(d), "erase_spans": unit_span} for d in descs]
    ex = expand_all(reqs)
    out = []
    for d, r in zip(descs, reqs):
        uid = r["id"]
        e = ex[uid]
        meta = {"descriptor": d, "declaration": r["decl"], "mode": mode + ("+unit-span" if unit_span else "")}
        if not e.get("ok"):
            meta["prefail"] = "expander: " + (e.get("error") or ("derive panicked: " + e.get("panic", "")))
            out.append((uid, None, meta))
            continue
        meta["prepass"] = e["log"]
        exp = expected_fns(d)
        if exp is not None:
            got = set(re.findall(r"^\s*fn (\w+)\s*[(<]", open(e["path"]).read(), re.M)) - {"__validate_body"}
            if got != exp:
                meta["interface_mismatch"] = {"expected": sorted(exp), "emitted": sorted(got)}
        if d["kind"] == "elem" and not meta.get("interface_mismatch"):
            # emitted structure: a receiver whose declaration makes attributes matter (attributes(..) names, or forward_attrs with an
            # `attrs` field to keep them) must be given code that walks the element's attributes, and vice versa
            fwd = d["forward"] if "attrs" in d["magic"] else None
            walk = bool(d["attributes"]) or (fwd is not None and fwd != [])
            has = bool(re.search(r"\bfor\s+__attr\s+in\b", open(e["path"]).read()))
            if walk and not has:
                meta["interface_mismatch"] = {"expected": ["a walk over the element's attributes (the declaration selects or forwards attributes)"], "emitted": ["no attribute walk"]}
        out.append((uid, make_unit(uid, d, mode, unit_span), meta))
    return out


# ================================================================================================ enums (C09)
def variant(ident, style="unit", rename=None, skip=False, word=False, fields=None):
    return {"ident": ident, "style": style, "rename": rename, "skip": skip, "word": word, "fields": fields or []}


def enum_desc(name, variants, rename_all=None, allow_unknown=False, from_word=False, from_none=False):
    return {"kind": "enum", "name": name, "trait": "FromMeta", "variants": variants, "rename_all": rename_all, "allow_unknown": allow_unknown,
            "from_word": from_word, "from_none": from_none}


def enum_vname(d, v):
    # C09: explicit rename, else the container case rule, snake_case by default
    return v["rename"] if v["rename"] is not None else rule_variant(d["rename_all"] or "snake_case", v["ident"])


def enum_layout(d):
    """Assign the enum's type parameters U0.. to variant fields in declaration order."""
    k = 0
    lay = []
    for v in d["variants"]:
        if v["style"] == "newtype":
            lay.append([f"U{k}"]); k += 1
        elif v["style"] == "struct":
            lay.append([f"U{k + i}" for i in range(len(v["fields"]))]); k += len(v["fields"])
        else:
            lay.append([])
    return lay, k


def enum_declaration(d):
    lay, k = enum_layout(d)
    tps = ", ".join(f"U{i}" for i in range(k))
    ca = []
    if d["rename_all"]:
        ca.append(f'rename_all = {lit(d["rename_all"])}')
    if d["allow_unknown"]:
        ca.append("allow_unknown_fields")
    if d.get("from_word"):
        ca.append(f"from_word = mkw_{d['name']}")
    if d.get("from_none"):
        ca.append(f"from_none = mkn_{d['name']}")
    out = (f"#[darling({', '.join(ca)})] " if ca else "") + f"enum {d['name']}" + (f"<{tps}>" if k else "") + " { "
    for v, tp in zip(d["variants"], lay):
        a = []
        if v["rename"] is not None:
            a.append(f'rename = {lit(v["rename"])}')
        if v["skip"]:
            a.append("skip")
        if v["word"] is True:
            a.append("word")
        elif v["word"] == "false":
            a.append("word = false")
        if a:
            out += f"#[darling({', '.join(a)})] "
        if v["style"] == "unit":
            out += f"{v['ident']}, "
        elif v["style"] == "newtype":
            out += f"{v['ident']}({tp[0]}), "
        else:
            out += f"{v['ident']} {{ "
            for i, f in enumerate(v["fields"]):
                fa = []
                if f["rename"] is not None:
                    fa.append(f'rename = {lit(f["rename"])}')
                if f["default"] == "trait":
                    fa.append("default")
                if f["skip"]:
                    fa.append("skip")
                if f["multiple"]:
                    fa.append("multiple")
                if fa:
                    out += f"#[darling({', '.join(fa)})] "
                out += f"{f['ident']}: " + (f"Vec<{tp[i]}>" if f["multiple"] else tp[i]) + ", "
            out += "}, "
    return out + "}"


def enum_template(d, gen_id, mode="full"):
    n = d["name"]
    lay, K = enum_layout(d)
    tps = ", ".join(f"U{i}" for i in range(K))
    gen_bounds = ", ".join(f"U{i}: FromMeta + darling::export::Default" for i in range(K))
    o = []
    w = o.append
    w(f"// ===== enum receiver {n}: {json.dumps(d)}")
    body = []
    for v, tp in zip(d["variants"], lay):
        if v["style"] == "unit":
            body.append(v["ident"])
        elif v["style"] == "newtype":
            body.append(f"{v['ident']}({tp[0]})")
        else:
            body.append(f"{v['ident']} {{ " + ", ".join(f"{f['ident']}: " + (f"Vec<{tp[i]}>" if f["multiple"] else tp[i]) for i, f in enumerate(v["fields"])) + " }")
    w(f"pub enum {n}<{tps}> {{ " + ", ".join(body) + " }")
    hook_decls(d, n, tps, w)
    live = [(v, tp) for v, tp in zip(d["variants"], lay) if not v["skip"]]
    vnames = [enum_vname(d, v) for v, _ in live]
    vnames_seq = "seq![" + ", ".join(f"{lit(x)}@" for x in vnames) + "]"

    # struct variants: a struct oracle each (carrier struct = ghost record of the variant's fields)
    directives = ["    //@ match_str 0"] if live else []
    L, M, CB, occ_for, occ_alts = 0, (1 if live else 0), 0, 0, 0
    arms_list, arms_str = [], []
    for v, tp in live:
        nm = lit(enum_vname(d, v))
        vi = v["ident"]
        if v["style"] == "unit":
            arms_list.append(f"if meta_name(m) == {nm}@ {{ if m is Path {{ Ok({n}::{vi}) }} else {{ Err(e_with_span(e_format(\"non-path\"@), meta_span(m))) }} }}")
            arms_str.append(f"if s == {nm}@ {{ Ok({n}::{vi}) }}")
        elif v["style"] == "newtype":
            t = tp[0]
            arms_list.append(f"if meta_name(m) == {nm}@ {{ match {t}::meta_spec(m) {{ Ok(v) => Ok({n}::{vi}(v)), Err(e) => Err(e_at(e, {nm}@)) }} }}")
            arms_str.append(f"if s == {nm}@ {{ match {t}::none_spec() {{ Some(v) => Ok({n}::{vi}(v)), None => Err(e_format(\"literal\"@)) }} }}")
            directives.append(f"    //@ closure {CB}: |e: Error| -> (r: Error) ensures r == e_at(e, {nm}@)")
            CB += 1
        else:
            cn = f"{n}{vi}"
            dv = struct_desc(cn, v["fields"], rename_all=d["rename_all"] or "snake_case", allow_unknown=d["allow_unknown"])
            ctx = {"loop": L, "match": M, "closure": CB, "occ_for": occ_for, "occ_alts": occ_alts, "targs": tp, "located": enum_vname(d, v)}
            text, D, info = struct_template(dv, gen_id, mode="full", ctx=ctx)
            w(text)
            directives += D
            L += 1
            M += 1 if info["addressable"] else 0
            CB += info["nclos"]
            occ_for += 1
            occ_alts += 1 if info["has_alts"] else 0
            targs = ", ".join(tp)
            ta = f"::<{targs}>" if tp else ""
            build = f"{n}::{vi} {{ " + ", ".join(f"{f['ident']}: v.{f['ident']}" for f in v["fields"]) + " }"
            arms_list.append(
                f"if meta_name(m) == {nm}@ {{ if m is List {{ match parse_items(m->List_0.tokens) {{ Err(se) => Err(e_from_syn(se)), "
                f"Ok(items) => {{ let s = chk_{cn}{ta}(run_{cn}{ta}(items)); if s.errs.len() > 0 {{ Err(e_at(e_multiple(s.errs), {nm}@)) }} "
                f"else {{ let v = val_{cn}{ta}(s); Ok({build}) }} }} }} }} else {{ Err(e_with_span(e_format(\"non-list\"@), meta_span(m))) }} }}")
            arms_str.append(f"if s == {nm}@ {{ Err(e_format(\"literal\"@)) }}")
    unk = f"Err(e_with_span(e_unknown_alts(meta_name(m), {vnames_seq}), meta_span(m)))" if vnames else "Err(e_with_span(e_unknown(meta_name(m)), meta_span(m)))"
    w(f"pub open spec fn list_{n}<{gen_bounds}>(outer: Seq<NestedMeta>) -> Result<{n}<{tps}>> {{")
    w("    if outer.len() == 0 { Err(e_too_few(1)) } else if outer.len() > 1 { Err(e_too_many(1)) } else { match outer[0] {")
    w('        NestedMeta::Lit(l) => Err(e_with_span(e_format("literal"@), lit_span(l))),')
    w("        NestedMeta::Meta(m) => {")
    w("            " + "\n            else ".join(arms_list + [f"{{ {unk} }}"]) if arms_list else f"            {unk}")
    w("        }")
    w("    } }")
    w("}")
    w(f"pub open spec fn string_{n}<{gen_bounds}>(s: Seq<char>) -> Result<{n}<{tps}>> {{")
    w("    " + "\n    else ".join(arms_str + ["{ Err(e_value(s)) }"]) if arms_str else "    Err(e_value(s))")
    w("}")
    if vnames:
        directives.append(f"    //@ replace R16 @{occ_alts}: unknown_field_with_alts(__other, &[$$]) ==> unknown_field_with_alts(__other, {{ let __alts: &[&str] = &[$1]; proof {{ assert(strs(__alts@) =~= {vnames_seq}); }} __alts }})")
    wordv = next((v for v in d["variants"] if v["word"] is True and not v["skip"]), None)    # C09: a skipped variant can never be produced
    w(f"impl<{gen_bounds}> {n}<{tps}> {{")
    w(f"    //@fn @gen:{gen_id}.rs :: impl crate::darling::FromMeta for {n}<{tps}> :: fn from_list")
    w("    #[verifier::loop_isolation(false)]")
    w(f"    pub fn from_list(__outer: &[crate::darling::export::NestedMeta]) -> (r: crate::darling::Result<Self>)")
    w(f"        ensures r == list_{n}::<{tps}>(__outer@),")
    w("    //@body")
    for x in directives + DISCIPLINE:
        w(x)
    w("    //@end")
    w(f"    //@fn @gen:{gen_id}.rs :: impl crate::darling::FromMeta for {n}<{tps}> :: fn from_string")
    w(f"    pub fn from_string(lit: &str) -> (r: crate::darling::Result<Self>)")
    w(f"        ensures r == string_{n}::<{tps}>(lit@),")
    w("    //@body")
    if live:
        w("    //@ match_str 0")
    w("    //@end")
    if wordv:
        w(f"    //@fn @gen:{gen_id}.rs :: impl crate::darling::FromMeta for {n}<{tps}> :: fn from_word")
        w(f"    pub fn from_word() -> (r: crate::darling::Result<Self>)")
        w(f"        ensures r == Ok::<Self, Error>({n}::{wordv['ident']}),")
        w("    //@body")
        w(f"    //@ closure 0: || -> (r: crate::darling::Result<Self>) ensures r == Ok::<Self, Error>({n}::{wordv['ident']})")
        w("    //@end")
    hook_blocks(d, gen_id, n, tps, w)
    w("}")
    text = "\n".join(o)
    if K == 0:
        text = text.replace("::<>", "").replace("<>", "")
    return text


def quick_enums():
    f = field
    v = variant
    return [
        enum_desc("E0", [v("Alpha"), v("BetaTwo", rename="bee"), v("Gamma", word=True), v("Hidden", skip=True), v("New", "newtype"),
                         v("Cfg", "struct", fields=[f("x"), f("y", default="trait")])]),
        enum_desc("E1", [v("OnlyUnit")], rename_all="SCREAMING_SNAKE_CASE"),
        enum_desc("E2", [v("FirstThing", "newtype"), v("SecondThing", "newtype", rename="second_thing_x")], rename_all="camelCase"),
        enum_desc("E3", [v("Conf", "struct", fields=[f("items", multiple=True), f("z", skip=True)]), v("Other", "struct", rename="oth", fields=[f("q")])], allow_unknown=True),   # a renamed variant inherits the enum's allow_unknown_fields too (C09_r7m2)
        enum_desc("E4", [v("A", skip=True), v("B", skip=True)]),
        enum_desc("E5", [v("LoremIpsum"), v("DolorSit", word=True), v("Amet", "newtype", skip=True)], rename_all="kebab-case"),
        enum_desc("E6", [v("Strict", word="false"), v("Lax")]),
        enum_desc("E7", [v("One"), v("Two", "newtype")], from_word=True, from_none=True),
        # C09 "a skipped variant can never be produced": `skip` together with `word` (F18)
        enum_desc("E8", [v("Hidden", skip=True, word=True), v("Shown")]),
    ]


CORPORA["enums"] = lambda tier, seed: quick_enums()


# ================================================================================================ element-level receivers (C08 / C16)
ELEM = {
    # trait: (fn name, parameter name, parameter type in the emitted signature, element mirror type, attrs accessor, magic fields: name -> (type, spec expr, fallible?))
    "FromDeriveInput": {"fn": "from_derive_input", "param": "__di", "pty": "crate::darling::export::syn::DeriveInput", "attrs": "el.attrs@",
                        "magic": {"ident": ("Ident", "el.ident"), "vis": ("Visibility", "el.vis"), "generics": ("Generics", "el.generics"),
                                  "attrs": ("Vec<Attribute>", "vec_of(w.fwd)"), "data": ("AstData<VV, FF>", "dv")}},
    "FromField": {"fn": "from_field", "param": "__field", "pty": "crate::darling::export::syn::Field", "attrs": "el.attrs@",
                  "magic": {"ident": ("Option<Ident>", "el.ident"), "vis": ("Visibility", "el.vis"), "ty": ("Type", "el.ty"), "attrs": ("Vec<Attribute>", "vec_of(w.fwd)")}},
    "FromAttributes": {"fn": "from_attributes", "param": "__di", "pty": None, "attrs": "el@",
                       "magic": {"attrs": ("Vec<Attribute>", "vec_of(w.fwd)")}},
    "FromVariant": {"fn": "from_variant", "param": "__variant", "pty": "crate::darling::export::syn::Variant", "attrs": "el.attrs@",
                    "magic": {"ident": ("Ident", "el.ident"), "discriminant": ("Option<Expr>", "variant_discr(el)"), "attrs": ("Vec<Attribute>", "vec_of(w.fwd)"),
                              "fields": ("AstFields<FF>", "dv")}},
    "FromTypeParam": {"fn": "from_type_param", "param": "__type_param", "pty": "crate::darling::export::syn::TypeParam", "attrs": "el.attrs@",
                      "magic": {"ident": ("Ident", "el.ident"), "bounds": ("Vec<TypeParamBound>", "vec_of(bound_seq(el.bounds))"), "default": ("Option<Type>", "el.default"),
                                "attrs": ("Vec<Attribute>", "vec_of(w.fwd)")}},
}
MAGIC_DECL = {"ident": "syn::Ident", "vis": "syn::Visibility", "generics": "syn::Generics", "attrs": "Vec<syn::Attribute>", "data": "darling::ast::Data<VV, FF>", "ty": "syn::Type",
              "discriminant": "Option<syn::Expr>", "fields": "darling::ast::Fields<FF>", "bounds": "Vec<syn::TypeParamBound>", "default": "Option<syn::Type>"}


def elem_desc(name, trait, fields, attributes, forward=None, magic=(), supports=None, attrs_with=False, **kw):
    d = struct_desc(name, fields, trait=trait, **kw)
    d.update({"kind": "elem", "attributes": list(attributes), "forward": forward, "magic": list(magic), "supports": supports, "attrs_with": attrs_with})
    return d


def elem_declaration(d):
    base = declaration(dict(d, kind="struct"))
    # container attribute: attributes(..), forward_attrs
    extra = []
    if d["attributes"]:
        extra.append("attributes(" + ", ".join(d["attributes"]) + ")")
    if d["forward"] == "all":
        extra.append("forward_attrs")
    elif isinstance(d["forward"], list):
        extra.append("forward_attrs(" + ", ".join(d["forward"]) + ")")
    if d.get("supports") is not None:
        extra.append("supports(" + ", ".join(d["supports"]) + ")")
    m = re.match(r"#\[darling\((.*?)\)\] struct", base)
    if m:
        base = base.replace(m.group(0), f"#[darling({m.group(1)}, {', '.join(extra)})] struct", 1) if extra else base
    elif extra:
        base = f"#[darling({', '.join(extra)})] " + base
    # magic fields are declared with their real syn types; opt-in generic params for `data`
    def mdecl(k):
        if k == "attrs" and d.get("attrs_with"):
            return f"#[darling(with = conv_attrs_{d['name']})] attrs: TA,"
        return f"{k}: {'Option<syn::Ident>' if (k == 'ident' and d['trait'] == 'FromField') else MAGIC_DECL[k]},"
    mf = " ".join(mdecl(k) for k in d["magic"])
    base = base.replace(" { ", " { " + mf + " ", 1)
    xg = (["VV", "FF"] if "data" in d["magic"] else (["FF"] if "fields" in d["magic"] else [])) + (["TA"] if d.get("attrs_with") else [])
    if xg:
        g = ", ".join(xg)
        base = re.sub(r"struct (\w+)<", rf"struct \1<{g}, ", base, count=1) if re.search(r"struct \w+<", base) else re.sub(r"struct (\w+) ", rf"struct \1<{g}> ", base, count=1)
        base = base.replace(", >", ">")
    return base


def elem_template(d, gen_id, mode="full"):
    E = ELEM[d["trait"]]
    n = d["name"]
    sel = d["attributes"]
    has_attrs_field = "attrs" in d["magic"]
    fwd = d["forward"] if has_attrs_field else None          # forwarding needs a place to keep the attributes
    if isinstance(fwd, list) and not fwd:
        fwd = None
    will_walk = bool(sel) or fwd is not None
    aw = bool(d.get("attrs_with")) and has_attrs_field
    magic = [(k, "TA" if (k == "attrs" and aw) else E["magic"][k][0]) for k in d["magic"]]
    start = f"awalk_{n}::<TPS>(__s0@.take(__i0 - 1)).st"
    extra_inv = (f" && __fwd_attrs@ =~= awalk_{n}::<TPS>(__s0@.take(__i0 - 1)).fwd" if has_attrs_field else "")
    ctx = {"loop": 1, "match": 1 if will_walk else 0, "closure": 0, "occ_for": 0, "occ_alts": 0, "elem": True, "magic": magic, "start": start, "extra_inv": extra_inv}
    text, D, info = struct_template(dict(d, kind="struct"), gen_id, mode="full", ctx=ctx)
    tps = info["tps"]
    xg = (["VV", "FF"] if "data" in d["magic"] else (["FF"] if "fields" in d["magic"] else [])) + (["TA"] if aw else [])
    xgs = ", ".join(xg)
    data_g = (xgs + ", ") if xg else ""
    rej = " ".join(f"#[verifier::reject_recursive_types({x})]" for x in xg)
    # struct_template declared `pub struct n<tps>` - add the body-conversion generics
    if data_g:
        text = text.replace(f"pub struct {n}<{tps}>", f"{rej} pub struct {n}<{data_g}{tps}>", 1)
        text = text.replace(f"pub struct Magic{n} {{", f"{rej} pub struct Magic{n}<{xgs}> {{", 1)
        text = re.sub(rf"\b{n}<{re.escape(tps)}>", f"{n}<{data_g}{tps}>", text)
        text = text.replace(f"mg: Magic{n}", f"mg: Magic{n}<{xgs}>")
        text = re.sub(rf"pub open spec fn (val_{n}|map_{n}_spec|fix_{n}_spec|mk_{n}_spec|dflt_{n}_spec)<", rf"pub open spec fn \1<{xgs}, ", text)
        text = re.sub(rf"pub uninterp spec fn (map_{n}_spec|fix_{n}_spec|mk_{n}_spec|dflt_{n}_spec)<", rf"pub uninterp spec fn \1<{xgs}, ", text)
        text = re.sub(rf"pub fn (map_{n}|fix_{n}|mk_{n})<", rf"pub fn \1<{xgs}, ", text)
        text = re.sub(rf"impl<{re.escape(tps)}> darling::export::Default for", f"impl<{xgs}, {tps}> darling::export::Default for", text)
        text = re.sub(rf"(mk_{n}_spec|dflt_{n}_spec)::<{re.escape(tps)}>", rf"\1::<{xgs}, {tps}>", text)
    gb = info["gen_bounds"]
    full_tps = f"{data_g}{tps}"
    full_gb = f"{data_g}{gb}"
    D = [x.replace("TPS", tps) for x in D]
    if data_g:
        D = [re.sub(rf"\b{n}<{re.escape(tps)}>", f"{n}<{data_g}{tps}>", x) for x in D]
    if not sel:
        # no attribute is selected: the emitted code has no item loop at all, only the container-level post transform remains
        D = [x for x in D if f".and_then(fix_{n})" in x or f".map(map_{n})" in x]
    o = [text]
    w = o.append
    sel_cond = " || ".join(f"attr_name(a) == {lit(x)}@" for x in sel) or "false"
    if fwd == "all":
        fwd_cond = "true"
    elif isinstance(fwd, list):
        fwd_cond = " || ".join(f"attr_name(a) == {lit(x)}@" for x in fwd)
    else:
        fwd_cond = "false"
    if aw:
        w(f"pub uninterp spec fn conv_attrs_{n}_spec<TA>(v: Seq<Attribute>) -> Result<TA>;")
        w(f"#[verifier::external_body] pub fn conv_attrs_{n}<TA>(v: Vec<Attribute>) -> (r: Result<TA>) ensures r == conv_attrs_{n}_spec::<TA>(v@) {{ unimplemented!() }}")
    # C08: the attribute walk - selected attributes are one list, forwarded ones are kept in order, the rest is inert
    w(f"pub struct W{n}<{tps}> {{ pub st: St{n}<{tps}>, pub fwd: Seq<Attribute> }}")
    w(f"pub open spec fn astep_{n}<{gb}>(w: W{n}<{tps}>, a: Attribute) -> W{n}<{tps}> {{")
    w(f"    if {sel_cond} {{")
    w(f"        match attr_meta_list(a) {{ Err(e) => W{n} {{ st: St{n} {{ errs: w.st.errs.push(e), ..w.st }}, ..w }},")
    w(f"            Ok(ml) => match parse_items(ml.tokens) {{ Err(se) => W{n} {{ st: St{n} {{ errs: w.st.errs.push(e_from_syn(se)), ..w.st }}, ..w }},")
    w(f"                Ok(items) => W{n} {{ st: run_from_{n}::<{tps}>(w.st, items), ..w }} }} }}")
    w(f"    }} else if {fwd_cond} {{ W{n} {{ fwd: w.fwd.push(a), ..w }} }} else {{ w }}")
    w("}")
    w(f"pub open spec fn awalk_{n}<{gb}>(attrs: Seq<Attribute>) -> W{n}<{tps}> decreases attrs.len() {{")
    w(f"    if attrs.len() == 0 {{ W{n} {{ st: init_{n}::<{tps}>(), fwd: Seq::empty() }} }} else {{ astep_{n}::<{tps}>(awalk_{n}::<{tps}>(attrs.drop_last()), attrs.last()) }}")
    w("}")
    elty = {"FromDeriveInput": "DeriveInput", "FromField": "Field", "FromAttributes": "Seq<Attribute>", "FromVariant": "Variant", "FromTypeParam": "TypeParam"}[d["trait"]]
    w(f"pub open spec fn efin_{n}<{full_gb}>(el: {elty}) -> Result<{n}<{full_tps}>> {{")
    if will_walk:
        w(f"    let w = awalk_{n}::<{tps}>({E['attrs'] if d['trait'] != 'FromAttributes' else 'el'});")
    else:
        # neither attributes(..) nor an effective forward_attrs: no attribute can have any effect (C08)
        w(f"    let w = W{n} {{ st: init_{n}::<{tps}>(), fwd: Seq::<Attribute>::empty() }};")
    cur = "w.st"
    if aw:
        # `with = f` on the `attrs` magic field: the forwarded attributes go through the user's converter right after the walk; its failure is
        # one more accumulated error, its value is what the field holds
        w(f"    let st_a = match conv_attrs_{n}_spec::<TA>(w.fwd) {{ Ok(_) => {cur}, Err(e) => St{n} {{ errs: {cur}.errs.push(e), ..{cur} }} }};")
        cur = "st_a"
    if d.get("supports") is not None:
        # C18 (FromVariant): the variant's field list is checked against the SET of declared words, after the attribute walk and before
        # the presence checks; a rejected shape is one more error, never a short-circuit
        wset = "Set::<Shape>::empty()" + "".join(f".insert(Shape::{SHAPE_VARIANT[x]})" for x in d["supports"])
        w(f"    let st1 = match variant_shape_verdict({wset}, el.fields) {{ Ok(_) => {cur}, Err(e) => St{n} {{ errs: {cur}.errs.push(e), ..{cur} }} }};")
        w(f"    let s = chk_{n}::<{tps}>(st1);")
    else:
        w(f"    let s = chk_{n}::<{tps}>({cur});")
    w("    if s.errs.len() > 0 { Err(e_multiple(s.errs)) } else {")
    mg_inits = ", ".join(f"{k}: " + (f"conv_attrs_{n}_spec::<TA>(w.fwd)->Ok_0" if (k == "attrs" and aw) else E['magic'][k][1]) for k in d["magic"])
    mg = f"Magic{n}" + (f"::<{xgs}>" if data_g else "")
    valcall = f"val_{n}::<{full_tps}>(s" + (f", {mg} {{ {mg_inits} }}" if magic else "") + ")"
    cp = info["cp"].replace("(v)", f"({valcall})") if info["cp"] != "Ok(v)" else f"Ok({valcall})"
    if "data" in d["magic"]:
        w(f"        match data_try_from_spec::<VV, FF>(el.data) {{ Err(e) => Err(e), Ok(dv) => {cp} }}")
    elif "fields" in d["magic"]:
        w(f"        match fields_try_from_spec::<FF>(el.fields) {{ Err(e) => Err(e), Ok(dv) => {cp} }}")
    else:
        w(f"        {cp}")
    w("    }")
    w("}")
    fa = "__fwd_attrs@ =~= w.fwd" if has_attrs_field else "true"
    fwd_p = ", __fwd_attrs: Vec<Attribute>" if has_attrs_field else ""
    locs = info["locs"]
    w(f"pub open spec fn ainv_{n}<{gb}>(w: W{n}<{tps}>, {locs + ', ' if locs else ''}{info['flat_p'].lstrip(', ') + ', ' if info['flat_p'] else ''}__errors: Accumulator{fwd_p}) -> bool {{")
    w(f"    inv_{n}::<{tps}>(w.st, {info['call'] + ', ' if info['call'] else ''}{info['flat_a'].lstrip(', ') + ', ' if info['flat_a'] else ''}__errors) && {fa}")
    w("}")
    call = f"{info['call'] + ', ' if info['call'] else ''}{info['flat_a'].lstrip(', ') + ', ' if info['flat_a'] else ''}__errors" + (", __fwd_attrs" if has_attrs_field else "")
    impl_gen = f"{data_g}{info['impl_gen']}"
    trait_path = f"crate::darling::{d['trait']}"
    w(f"impl<{impl_gen}> {n}<{full_tps}> {{")
    w(f"    //@fn @gen:{gen_id}.rs :: impl {trait_path} for {n}<{full_tps}> :: fn {E['fn']}")
    w("    #[verifier::loop_isolation(false)]")
    if d["trait"] == "FromAttributes":
        w(f"    pub fn from_attributes(__di: &[crate::darling::export::syn::Attribute]) -> (r: crate::darling::Result<Self>)")
        w(f"        ensures r == efin_{n}::<{full_tps}>(__di@),")
        acc = "__di"
    else:
        w(f"    pub fn {E['fn']}({E['param']}: &{E['pty']}) -> (r: crate::darling::Result<Self>)")
        w(f"        ensures r == efin_{n}::<{full_tps}>(*{E['param']}),")
        acc = f"&{E['param']}.attrs"
    w("    //@body")
    if will_walk:
        w(f"    //@ loop 0 for_to_while ref: invariant __i0 <= __s0@.len(), ainv_{n}::<{tps}>(awalk_{n}::<{tps}>(__s0@.take(__i0 as int)), {call}), decreases __s0@.len() - __i0")
        w("    //@ loop 0 head: proof { assert(__s0@.take(__i0 as int).drop_last() == __s0@.take(__i0 - 1)); }")
        w("    //@ loop 0 after: proof { assert(__s0@.take(__s0@.len() as int) == __s0@); }")
        if sel or isinstance(fwd, list):
            w("    //@ match_str 0")
        w("    //@ replace R13b opt: __err.into() ==> crate::darling::Error::from_syn(__err)")
    for x in D:
        w(x)
    w("    //@ replace R4v opt: vec![] ==> Vec::new()")
    if d.get("supports") is not None:
        wset = "Set::<Shape>::empty()" + "".join(f".insert(Shape::{SHAPE_VARIANT[x]})" for x in d["supports"])
        w(f"    //@ replace R16s opt: crate::darling::util::ShapeSet::new(vec![$$]) ==> crate::darling::util::ShapeSet::new({{ let __w = vec![$1]; proof {{ assert(__w@.to_set() =~= {wset}); }} __w }})")
    if d["trait"] == "FromVariant" and "discriminant" in d["magic"]:
        w("    //@ replace R11c: __variant.discriminant.as_ref().map($$) ==> crate::discriminant_of(__variant)")
    if d["trait"] == "FromTypeParam" and "bounds" in d["magic"]:
        w("    //@ replace R11c: __type_param.bounds.clone().into_iter().collect::<Vec<_>>() ==> crate::bounds_of(__type_param)")
    if d["trait"] == "FromTypeParam" and "default" in d["magic"]:
        w("    //@ replace R11c: __type_param.default.clone() ==> crate::clone_opt_type(&__type_param.default)")
    for x in DISCIPLINE:
        w(x)
    w("    //@end")
    w("}")
    out = "\n".join(o)
    if not full_tps:
        out = out.replace("::<>", "").replace("<>", "")
    return out


def quick_elems():
    f = field
    return [
        elem_desc("D0", "FromDeriveInput", [f("a"), f("b", default="trait")], ["foo", "bar"], forward=["doc", "allow"], magic=["ident", "vis", "generics", "attrs", "data"]),
        elem_desc("D1", "FromField", [f("a")], ["foo"], forward="all", magic=["ident", "ty", "attrs"]),
        elem_desc("D2", "FromAttributes", [f("x", multiple=True), f("y")], ["cfgx"]),
        elem_desc("D3", "FromDeriveInput", [f("only")], ["one"], magic=["ident"]),
        elem_desc("D4", "FromDeriveInput", [f("v", default="trait")], ["cfg_a"], forward=[], magic=["attrs", "ident"]),
        elem_desc("D8", "FromVariant", [f("a")], ["foo"], forward=["doc"], magic=["ident", "discriminant", "fields", "attrs"]),
        elem_desc("D12", "FromVariant", [f("a"), f("b", default="trait")], ["foo"], magic=["ident", "fields"], supports=["unit", "newtype"]),
        elem_desc("D13", "FromVariant", [], ["foo"], magic=["ident"], supports=["named"]),
        elem_desc("D14", "FromField", [f("a"), f("b", default="trait")], ["foo"], forward=["doc", "keep"], magic=["ident", "attrs"], attrs_with=True),
        elem_desc("D15", "FromDeriveInput", [f("z", skip=True)], [], forward="all", magic=["attrs", "ident"], attrs_with=True),
        elem_desc("D9", "FromTypeParam", [f("a", default="trait")], ["foo", "bar"], forward="all", magic=["ident", "bounds", "default", "attrs"]),
        elem_desc("D6", "FromDeriveInput", [f("z", skip=True)], [], forward=[], magic=["attrs", "ident"]),
        elem_desc("D10", "FromDeriveInput", [f("z", skip=True)], [], forward="all", magic=["attrs", "ident"]),       # forward-only receivers
        elem_desc("D11", "FromVariant", [f("a", default="trait")], [], forward=["doc", "ns::keep"], magic=["attrs"]),
        elem_desc("D7", "FromField", [f("q", default="path")], ["ns::deep", "plain"], forward=["ns::doc"], magic=["attrs"]),
        elem_desc("D5", "FromField", [f("keepers", multiple=True)], ["one", "two", "three"], forward=["keep"], magic=["attrs", "vis"], allow_unknown=True),
    ]


CORPORA["elems"] = lambda tier, seed: quick_elems()
CORPORA["variant_supports"] = lambda tier, seed: [d for d in quick_elems() if d.get("supports") is not None]


# ================================================================================================ supports(..) validators (C18)
SHAPE_WORDS = ["newtype", "named", "tuple", "unit"]
SHAPE_VARIANT = {"newtype": "Newtype", "named": "Named", "tuple": "Tuple", "unit": "Unit"}


def supports_desc(name, struct_words=(), enum_words=(), any_=False):
    return {"kind": "supports", "name": name, "trait": "FromDeriveInput", "struct_words": list(struct_words), "enum_words": list(enum_words), "any": any_}


def supports_declaration(d):
    # a kind's `any` word (`struct_any` / `enum_any`) stands for all four shape words of that kind - it is NOT the bare `any` (a union still fails)
    ws = (["any"] if d["any"] else []) + [f"struct_{w}" for w in d["struct_words"]] + [f"enum_{w}" for w in d["enum_words"]]
    return f"#[darling(attributes(x), supports({', '.join(ws)}))] struct {d['name']} {{ ident: syn::Ident }}"


SUPPORTS_HEADER = """// L3 unit {unit}: the `__validate_body` emitted for a receiver declaring supports(..), verified for all bodies against the
// verdict table of C18 (prelude/shape_l3.vrs). ShapeSet / Accumulator / Error are seen through their proved contracts.
use vstd::prelude::*;
use std::fmt;
verus! {{
//@include prelude/base.vrs
//@include prelude/ext_axioms.vrs
//@include prelude/error_types.vrs
//@include prelude/std_assumed.vrs
//@include prelude/broadcast_all.vrs
//@include prelude/error_api_specs.vrs
//@include prelude/error_api.vrs stubs
//@include prelude/error_api_shape.vrs stubs
//@include prelude/acc_api.vrs stubs
//@include prelude/shape_syn.vrs
//@include prelude/shape_api.vrs stubs
//@include prelude/shape_l3.vrs
"""


def supports_template(d, gen_id):
    n = d["name"]
    canon = ["named", "tuple", "newtype", "unit"]     # order in which DataShape lists its words (list equality is only a proof hint)
    sws = [x for x in canon if x in d["struct_words"] or "any" in d["struct_words"]]
    ews = [x for x in canon if x in d["enum_words"] or "any" in d["enum_words"]]
    sw = "seq![" + ", ".join(f"Shape::{SHAPE_VARIANT[w]}" for w in sws) + "]"
    ew = "seq![" + ", ".join(f"Shape::{SHAPE_VARIANT[w]}" for w in ews) + "]"
    if not d["struct_words"]:
        sw = "Seq::<Shape>::empty()"
    if not d["enum_words"]:
        ew = "Seq::<Shape>::empty()"
    o = []
    w = o.append
    w(f"// ===== receiver {n}: {json.dumps(d)}")
    w("impl Recv {")
    w(f"    //@fn @gen:{gen_id}.rs :: impl crate::darling::FromDeriveInput for {n} :: fn from_derive_input :: fn __validate_body")
    w("    #[verifier::loop_isolation(false)]")
    w("    pub fn __validate_body(__body: &crate::darling::export::syn::Data) -> (r: crate::darling::Result<()>)")
    if d["any"]:
        w("        ensures r == Ok::<(), Error>(()),")
        w("    //@body")
        w("    //@end")
    else:
        w(f"        ensures match verdict({sw}, {ew}, *__body) {{ Ok(_) => r is Ok, Err(e) => r == Err::<(), Error>(e) }},")
        w("    //@body")
        # The scaffold follows the shape of the emitted function (the postcondition above does not): the two sets are found by what they
        # are used for (`X.check(struct_data)` / `X.check(variant)`), the accumulator by what it is; a body that builds no set at all (e.g.
        # an unconditional `Ok(())`) gets no scaffold and is decided by the postcondition alone.
        try:
            emitted = open(os.path.join(GEN, gen_id + ".rs")).read()
        except OSError:
            emitted = ""
        vb = emitted[emitted.find("fn __validate_body"):]
        ms = re.search(r"\b(\w+)\s*\.\s*check\(\s*struct_data\s*\)", vb)
        me = re.search(r"\b(\w+)\s*\.\s*check\(\s*variant\s*\)", vb)
        sname = ms.group(1) if ms else "struct_check"
        ename = me.group(1) if me else "enum_check"
        has_sets = bool(re.search(rf"let\s+{sname}\s*=", vb)) and bool(re.search(rf"let\s+{ename}\s*=", vb))
        if has_sets:
            # anchored on the binding each set is given, not on the order of the two declarations
            w(f"    //@ replace R16: let {sname} = $$ ShapeSet::new(vec![$$]) ==> let {sname} = $1 ShapeSet::new({{ let __v: Vec<Shape> = vec![$2]; proof {{ axiom_vec_yield(__v); assert(__v@ =~= {sw}); }} __v }})")
            w(f"    //@ replace R16: let {ename} = $$ ShapeSet::new(vec![$$]) ==> let {ename} = $1 ShapeSet::new({{ let __v: Vec<Shape> = vec![$2]; proof {{ axiom_vec_yield(__v); assert(__v@ =~= {ew}); }} __v }})")
            w(f"    //@ replace R10: match *__body {{ ==> proof {{ lemma_set_of({sname}, {sw}); lemma_set_of({ename}, {ew}); lemma_empty_iff({sw}); lemma_empty_iff({ew}); }} match *__body {{")
        if has_sets or "for variant in &data.variants" in vb:
            w("    //@ replace R6n: for variant in &data.variants ==> for variant in __it: data.variants.as_slice()")
        m = re.search(r"let mut (\w+) = crate::darling::Error::accumulator\(\);", vb)
        if m:
            acc = m.group(1)
            w(f"    //@ loop 0 spec: invariant {acc}.armed(), {acc}.errs() =~= expected_errors(&{ename}, data.variants@.take(__it.index@ as int)),")
        elif "for variant in &data.variants" in vb:
            w(f"    //@ loop 0 spec: invariant expected_errors(&{ename}, data.variants@.take(__it.index@ as int)).len() == 0,")
        if "for variant in &data.variants" in vb:
            w("    //@ loop 0 head: proof { assert(data.variants@.take(__it.index@ + 1).drop_last() == data.variants@.take(__it.index@ as int)); }")
            w("    //@ loop 0 after: proof { assert(data.variants@.take(data.variants@.len() as int) == data.variants@); }")
        w("    //@end")
    w("}")
    return "\n".join(o)


def quick_supports():
    return [
        supports_desc("S0", ["named"], ["unit"]),
        supports_desc("S1", ["newtype", "tuple"], []),
        supports_desc("S2", [], ["newtype", "unit", "named"]),
        supports_desc("S3", any_=True),
        supports_desc("S4", ["unit", "named", "tuple", "newtype"], ["tuple"]),
        supports_desc("S5", ["newtype"], ["newtype"]),
        supports_desc("S6", ["any"], ["any"]),
        supports_desc("S7", ["any", "named"], ["unit"]),
        supports_desc("S8", ["tuple"], ["any"]),
    ]


def all_supports():
    out = []
    k = 0
    for smask in range(16):
        for emask in range(16):
            if smask == 0 and emask == 0:
                continue
            out.append(supports_desc(f"SA{k}", [w for i, w in enumerate(SHAPE_WORDS) if smask >> i & 1], [w for i, w in enumerate(SHAPE_WORDS) if emask >> i & 1]))
            k += 1
    return out


CORPORA["supports"] = lambda tier, seed: quick_supports() + ([] if tier == "quick" else all_supports())


def random_only(seedlist=range(1, 13)):
    return [random_struct(random.Random(s * 1000 + i), f"Q{s}_{i}") for s in seedlist for i in range(12)]


def random_enum(rng, name):
    nv = rng.randint(1, 5)
    vs = []
    idents = ["Alpha", "BetaTwo", "GammaRay", "Delta", "EpsilonX"]
    have_word = False
    for i in range(nv):
        style = rng.choice(["unit", "unit", "newtype", "struct"])
        v = variant(idents[i], style)
        if rng.random() < 0.25:
            v["rename"] = rng.choice(["renamed_v", "x", "Other"]) + str(i)
        if rng.random() < 0.2:
            v["skip"] = True
        # a skipped variant may carry the (single) word annotation too: it must still never be produced (C09, F18)
        if style == "unit" and not have_word and rng.random() < (0.3 if not v["skip"] else 0.5):
            v["word"] = True
            have_word = True
        if style == "struct":
            nf = rng.randint(1, 3)
            fs = []
            for j in range(nf):
                ff = field(["one", "two_b", "three"][j])
                k = rng.choice(["plain", "plain", "default_t", "multiple", "skip", "rename"])
                if k == "default_t":
                    ff["default"] = "trait"
                elif k == "multiple":
                    ff["multiple"] = True
                elif k == "skip":
                    ff["skip"] = True
                elif k == "rename":
                    ff["rename"] = f"r_{j}"
                fs.append(ff)
            v["fields"] = fs
        vs.append(v)
    return enum_desc(name, vs, rename_all=rng.choice(RULES), allow_unknown=rng.random() < 0.3,
                     from_word=(not have_word) and rng.random() < 0.2, from_none=rng.random() < 0.2)


def random_elem(rng, name):
    trait = rng.choice(["FromDeriveInput", "FromField", "FromAttributes", "FromVariant", "FromTypeParam"])
    avail = {"FromDeriveInput": ["ident", "vis", "generics", "attrs", "data"], "FromField": ["ident", "vis", "ty", "attrs"], "FromAttributes": ["attrs"],
             "FromVariant": ["ident", "discriminant", "fields", "attrs"], "FromTypeParam": ["ident", "bounds", "default", "attrs"]}[trait]
    magic = [m for m in avail if rng.random() < 0.6]
    fwd = rng.choice([None, "all", ["doc"], ["doc", "allow"], []])
    if "attrs" in magic and fwd is None:
        fwd = rng.choice(["all", ["doc"], []])       # an `attrs` field without forward_attrs is a declaration error (C10)
    attrs = rng.sample(["foo", "bar", "ns::baz"], rng.randint(0 if trait != "FromAttributes" else 1, 3))
    base = random_struct(rng, name)
    fields = [f for f in base["fields"] if not f["flatten"]][:3] or [field("only")]
    sup = None
    if trait == "FromVariant" and rng.random() < 0.4:
        sup = rng.sample(SHAPE_WORDS, rng.randint(1, 3))
    aw = "attrs" in magic and fwd not in (None, []) and rng.random() < 0.3
    for f in fields:
        if not f["skip"] and rng.random() < 0.1:
            f["skip_false"] = True
    return elem_desc(name, trait, fields, attrs, forward=fwd, magic=magic, supports=sup, attrs_with=aw, rename_all=base["rename_all"], allow_unknown=base["allow_unknown"],
                     cdefault=base["cdefault"], cpost=base["cpost"])


CORPORA["enums"] = lambda tier, seed: quick_enums() + ([] if tier == "quick" else [random_enum(random.Random(seed * 977 + i), f"ZE{i}") for i in range(40)])
CORPORA["elems"] = lambda tier, seed: quick_elems() + ([] if tier == "quick" else [random_elem(random.Random(seed * 991 + i), f"ZD{i}") for i in range(40)])


def random_enums_only(seedlist=range(1, 7)):
    return [random_enum(random.Random(s * 977 + i), f"QE{s}_{i}") for s in seedlist for i in range(12)]


def random_elems_only(seedlist=range(1, 7)):
    return [random_elem(random.Random(s * 991 + i), f"QD{s}_{i}") for s in seedlist for i in range(12)]


# ================================================================================================ unit / newtype struct receivers
def shape_desc(name, shape):
    return {"kind": "shape", "name": name, "trait": "FromMeta", "shape": shape}


def shape_declaration(d):
    return f"struct {d['name']};" if d["shape"] == "unit" else f"struct {d['name']}<T0>(T0);"


def shape_template(d, gen_id):
    n = d["name"]
    o = []
    w = o.append
    w(f"// ===== receiver {n}: {json.dumps(d)}")
    if d["shape"] == "unit":
        w(f"pub struct {n};")
        w(f"impl {n} {{")
        w(f"    //@fn @gen:{gen_id}.rs :: impl crate::darling::FromMeta for {n} :: fn from_word")
        w("    pub fn from_word() -> (r: crate::darling::Result<Self>)")
        w(f"        ensures r == Ok::<{n}, Error>({n}),")
        w("    //@body")
        w("    //@end")
        w("}")
    else:
        w(f"pub struct {n}<T0>(pub T0);")
        w(f"impl<T0: FromMeta> {n}<T0> {{")
        w(f"    //@fn @gen:{gen_id}.rs :: impl crate::darling::FromMeta for {n}<T0> :: fn from_meta")
        w("    pub fn from_meta(__item: &crate::darling::export::syn::Meta) -> (r: crate::darling::Result<Self>)")
        w(f"        ensures r == match T0::meta_spec(*__item) {{ Ok(v) => Ok::<{n}<T0>, Error>({n}(v)), Err(e) => Err::<{n}<T0>, Error>(e_with_span(e, meta_span(*__item))) }},")
        w("    //@body")
        w("    //@ closure 0 opt: |e: Error| -> (r: Error) ensures r == e_with_span(e, meta_span(*__item))")
        w(f"    //@ replace R4: .map({n}) ==> .map(|__x: T0| -> (r: {n}<T0>) ensures r == {n}(__x) {{ {n}(__x) }})")
        w("    //@end")
        w("}")
    return "\n".join(o)


CORPORA["structs"] = (lambda prev: (lambda tier, seed: prev(tier, seed) + [shape_desc("U0", "unit"), shape_desc("N0", "newtype")]))(CORPORA["structs"])
