"""Property registry + verdict/evidence logic.  ./check <id> [--tier quick|thorough] [--replay f] [--rebaseline]"""
import concurrent.futures as cf
import hashlib, importlib, json, os, re, sys, time

from . import compose as C
from . import driver as D

VERIF = C.VERIF
BASELINE_PATH = os.path.join(VERIF, "contracts", "BASELINE.json")
KNOWN_PATH = os.path.join(VERIF, "known_findings.json")

COMMON_ASSUMPTIONS = [
    "Verus 0.2026.09.13 + Z3 are sound; rustc front end of Verus accepts the composed file as the same Rust it would compile",
    "extraction (tools/extract) slices function bodies by AST path from /repo on every run; rewrite rules applied are listed per function under coverage.functions_under_contract[].rewrites and preserve meaning (DESIGN.md section 4)",
    "machine integers are checked by Verus (overflow is an obligation), not treated as mathematical",
    "every item under coverage.trusted_base (external_body / uninterp / assume_specification) is assumed, not proved",
]


PANIC_CLASSES = r"precondition not satisfied|overflow|underflow|division by zero|index out of|unreachable|panic"


def registry():
    from . import registry as R
    return R.PROPS


def load_json(p, default):
    try:
        return json.load(open(p))
    except Exception:
        return default


def known_entries(prop):
    return [k for k in load_json(KNOWN_PATH, []) if k.get("property") == prop]


def match_known(entry, unit, failure):
    if entry.get("status") != "known":
        return False
    if entry.get("unit") and not re.fullmatch(entry["unit"], unit):
        return False
    if entry.get("fn") and entry["fn"] != failure["fn"]:
        return False
    if entry.get("match") and entry["match"] not in (failure["message"] + " " + failure["text"] + " " + failure["src"]):
        return False
    return True


def write_replay(prop, unit, fails, u):
    os.makedirs(os.path.join(VERIF, "replays"), exist_ok=True)
    h = hashlib.sha1((unit + "|" + "|".join(f["obligation"] for f in fails)).encode()).hexdigest()[:10]
    path = os.path.join(VERIF, "replays", f"{prop}_{unit}_{h}.json")
    fn_texts = {}
    try:
        lines = open(u.path).read().split("\n")
        for f in u.fns:
            if any(x["fn"] == f["name"] for x in fails):
                fn_texts[f["id"]] = "\n".join(lines[f["line_start"] - 1:f["line_end"]])
    except Exception:
        pass
    json.dump({
        "property": prop, "unit": unit, "kind": "verus-obligation",
        "failed_obligations": [f["obligation"] for f in fails],
        "counterexample": next((f.get("counterexample") for f in fails if f.get("counterexample")), None),
        "note": ("Kani concrete playback below: a unit test that reproduces the failing values against the spliced real function."
                 if any(f.get("counterexample") for f in fails) else
                 "Verus gives no model: no-failing-input-found. The obligation below verified on the unchanged tree "
                 "(contracts/BASELINE.json) and fails on the current /repo source."),
        "verifier_output": [f["rendered"] for f in fails],
        "functions_as_extracted": fn_texts,
        "meta": u.meta,
        "rerun": f"./check {prop} --replay {path}",
    }, open(path, "w"), indent=1)
    return path


def run_property(prop, tier, seed, rebaseline=False, only_unit=None):
    reg = registry()[prop]
    t0 = time.time()
    D.ensure_tools()
    units = []
    for name in list(reg.get("units", [])) + [x for x in reg.get("panic_units", []) if x not in reg.get("units", [])]:
        units.append((name, D.load_unit_text(name), {"static": True}))
    if reg.get("gen"):
        from . import l3
        try:
            for g in reg["gen"]:
                units += l3.units_for(g["corpus"], tier, seed, g.get("mode", "full"), g.get("unit_span", False), prefix=prop.lower())
        except C.ExtractionError as e:
            print(f"UNDECIDED property={prop}: {e}")
            return 2
    if only_unit:
        units = [x for x in units if x[0] == only_unit]
    canaries = ("head",) if tier == "quick" else ("head", "loop_head", "after_loop")
    results = []
    with cf.ThreadPoolExecutor(max_workers=int(os.environ.get("VERIF_JOBS", "14"))) as ex:
        futs = []
        for n, t, m in units:
            if t is None:
                u = D.UnitResult(n)
                u.status = "undecided"
                u.reason = m.get("prefail", "no template")
                u.meta = m
                results.append(u)
            elif m.get("interface_mismatch"):
                u = D.UnitResult(n)
                u.status = "violation"
                u.meta = m
                im = m["interface_mismatch"]
                u.obligations = [{"id": f"{n}::emitted-interface", "fn": "emitted-interface", "ok": False, "time_us": 0, "rlimit": 0, "mode": "interface", "extracted": False}]
                u.failures = [{"fn": "emitted-interface", "fn_id": None, "tags": [], "message": "postcondition not satisfied (emitted impl defines the wrong set of methods)",
                               "text": f"expected {im['expected']}, emitted {im['emitted']}", "line": 0, "src": "", "rlimit": False,
                               "rendered": f"receiver {m.get('declaration')}: expected methods {im['expected']}, emitted {im['emitted']}",
                               "obligation": f"{n}::emitted-interface::expected {im['expected']} emitted {im['emitted']}"}]
                results.append(u)
            else:
                futs.append(ex.submit(D.run_unit, n, t, tier, canaries, reg.get("rlimit"), m))
        for k in reg.get("kani", []):
            from . import kani as K
            futs.append(ex.submit(K.run_kani_unit, k["name"], k["crate"], k["tmpl"], k["harnesses"], k["bounded"]))
        for f in futs:
            results.append(f.result())
    baseline = load_json(BASELINE_PATH, {})
    def short_counts(obls):
        # Verus names trait-impl methods `impl&%N::f` with N depending on the order of impls in the composed file; the baseline
        # is therefore keyed by the method's own name with a multiplicity, which survives reordering / additions in /verif
        c = {}
        for o in obls:
            k = re.sub(r"impl&%\d+::", "impl::", o["fn"])
            c[k] = c.get(k, 0) + 1
        return c
    def trait_impls(u):
        # trait-impl blocks the unit takes methods from -> the methods each block defines in the working tree
        out = {}
        for f in getattr(u, "fns", []) or []:
            if f.get("siblings") is not None and re.search(r":: impl [^:]* for ", f.get("parent", "")):
                out[f["parent"]] = f["siblings"]
        return out
    if rebaseline:
        for u in results:
            if u.meta.get("static") and u.status == "ok":
                baseline[u.name] = short_counts([o for o in u.obligations if o["ok"]])
                if not u.meta.get("kani"):
                    baseline.setdefault("__trait_impls__", {})[u.name] = trait_impls(u)
        os.makedirs(os.path.dirname(BASELINE_PATH), exist_ok=True)
        json.dump(baseline, open(BASELINE_PATH, "w"), indent=1, sort_keys=True)
    known = known_entries(prop)
    out_lines = []
    violations = []     # (unit, [failures], replay)
    undecided = []
    known_hits = []
    n_obl = n_dis = 0
    fn_rows = []
    trusted = set()
    canary_tot = {"expected": 0, "failed": 0}
    foreign = 0
    for u in results:
        trusted.update(u.trusted)
        for k, v in u.canaries.items():
            canary_tot["expected"] += v["expected"]
            canary_tot["failed"] += v["failed"]
        if u.status == "undecided":
            undecided.append((u.name, u.reason))
            continue
        tagmap = {}
        for f in u.fns:
            tagmap.setdefault(f["name"], set()).update([t for t in f["tags"] if not t.startswith("?")] or [prop])
        # `panic_units`: units whose functions this property depends on only for TOTALITY (C06: the FromMeta impls that convert option values at derive time):
        # every function counts, whatever its tags, but only with precondition-class failures (expect/unwrap/index/unreachable/overflow)
        panic_unit = u.name in reg.get("panic_units", [])
        mine = (lambda fn: True) if (reg.get("ignore_tags") or panic_unit) else (lambda fn: (prop in tagmap.get(fn.split("::")[-1], {prop})))
        for o in u.obligations:
            if not mine(o["fn"]):
                continue
            n_obl += 1
            n_dis += 1 if o["ok"] else 0
        rew = {f["name"]: f for f in u.fns}
        for o in u.obligations:
            short = o["fn"].split("::")[-1]
            if mine(o["fn"]):
                fn_rows.append({"unit": u.name, "function": o["fn"], "from": rew[short]["id"] if short in rew and o["extracted"] else "(spec/lemma in /verif)",
                                "backend": "verus+z3", "smt_ms": round(o["time_us"] / 1000, 2), "rlimit": o["rlimit"],
                                "discharged": o["ok"],
                                "rewrites": rew[short]["log"] if short in rew and o["extracted"] else []})
        if u.meta.get("static") and not u.meta.get("kani"):
            base = baseline.get(u.name, {})
            if isinstance(base, list):      # older baseline format
                base = short_counts([{"fn": x} for x in base])
            have = short_counts(u.obligations)
            gone = sorted(k for k, n in base.items() if have.get(k, 0) < n)
            if gone and u.status != "undecided" and not any(not o["ok"] for o in u.obligations):
                undecided.append((u.name, f"baseline obligations no longer generated: {gone}"))
                continue
            # a trait impl that GAINED a method overrides a default the verified model still uses: the model no longer runs the same code
            b_impls = baseline.get("__trait_impls__", {}).get(u.name)
            if b_impls is not None and u.status == "ok":
                gained = {par: sorted(set(now) - set(b_impls[par])) for par, now in trait_impls(u).items() if par in b_impls and set(now) - set(b_impls[par])}
                if gained:
                    undecided.append((u.name, "trait impl gained method(s) that are not under contract (the verified model would still use the trait default): "
                                      + "; ".join(f"{par.split(' :: ', 1)[-1]} + {ms}" for par, ms in gained.items())))
                    continue
        cls = reg.get("classes")
        xt = reg.get("exclude_text")
        it = reg.get("include_text")
        clst = reg.get("classes_text")
        def counts(f):
            if panic_unit:
                return bool(re.search(PANIC_CLASSES, f["message"]))
            comb = f["message"] + " :: " + f["text"] + " :: " + f["src"]
            if clst and re.search(clst, comb):
                return True
            c = cls
            for fn_re, fn_cls in reg.get("fn_classes", []):
                # per-function override: functions whose functional postconditions belong to another property count here only
                # with the failure classes named (e.g. panic-site preconditions and accumulator-discipline assertions for C06)
                if re.search(fn_re, f["fn"]):
                    c = fn_cls
                    break
            if c and not re.search(c, f["message"]):
                return False
            if xt and re.search(xt, f["text"] + " :: " + f["src"]):
                return False
            if it and not re.search(it, f["text"] + " :: " + f["src"]):
                return False
            return True
        fails = [f for f in u.failures if mine(f["fn"]) and counts(f)]
        foreign += len([f for f in u.failures if mine(f["fn"])]) - len(fails)
        located = {f["fn"] for f in u.failures}
        # a function reported failing without a located diagnostic
        failing_fns = {o["fn"].split("::")[-1] for o in u.obligations if not o["ok"] and mine(o["fn"])}
        for fn in failing_fns - located:
            fails.append({"fn": fn, "message": "verification failed", "text": "", "src": "", "line": 0, "rlimit": False,
                          "rendered": "", "obligation": f"{u.name}::{fn}::verification failed", "tags": []})
        new = []
        for f in fails:
            if f["rlimit"]:
                undecided.append((u.name, f"rlimit in {f['fn']}"))
                continue
            hit = next((k for k in known if match_known(k, u.name, f)), None)
            if hit:
                known_hits.append((hit, u.name, f))
            else:
                if u.meta.get("static") and not u.meta.get("kani") and baseline.get(u.name) is not None:
                    b = baseline.get(u.name, {})
                    names = {re.sub(r"impl&%\d+::", "impl::", x).split("::")[-1] for x in (b if isinstance(b, list) else b.keys())}
                    if f["fn"] not in names:
                        undecided.append((u.name, f"{f['fn']} fails but is not in the committed baseline (framework drift)"))
                        continue
                new.append(f)
        if new:
            violations.append((u, new, write_replay(prop, u.name, new, u)))
    seen_known = set()
    for hit, unit, f in known_hits:
        key = (hit.get("id") or hit.get("what"))
        if key in seen_known:
            continue
        seen_known.add(key)
        out_lines.append(f"KNOWN-FINDING: property={prop} {hit.get('what')} [{unit}::{f['fn']}: {f['message']}]")
    shown = 0
    for u, fails, rp in violations:
        for f in fails[:3]:
            if shown < 12:
                out_lines.append(f"  failed obligation: {f['obligation']}  (replay {rp})")
                shown += 1
    if violations:
        if len(violations) == 1:
            agg = violations[0][2]
        else:
            agg = os.path.join(VERIF, "replays", f"{prop}_all_{hashlib.sha1('|'.join(v[2] for v in violations).encode()).hexdigest()[:10]}.json")
            json.dump({"property": prop, "kind": "verus-obligations", "counterexample": None,
                       "note": "no-failing-input-found: Verus gives no model; each entry is the replay file of one unit whose obligations fail",
                       "units": [{"unit": v[0].name, "replay": v[2], "failed_obligations": [f["obligation"] for f in v[1]][:8]} for v in violations]},
                      open(agg, "w"), indent=1)
        has_cex = all(any(f.get("counterexample") for f in v[1]) for v in violations)
        out_lines.append(f"VIOLATION property={prop} replay={agg}" + ("" if has_cex else " no-failing-input-found"))
    for name, why in undecided:
        out_lines.append(f"UNDECIDED property={prop} unit={name}: {why}")
    wall = time.time() - t0
    samples = []
    for u in results[:3]:
        for o in u.obligations[:4]:
            samples.append({"unit": u.name, "obligation": o["id"], "discharged": o["ok"], "smt_ms": round(o["time_us"] / 1000, 2)})
    gen_units = [u for u in results if not u.meta.get("static")]
    for u in gen_units[:3]:
        samples.append({"unit": u.name, "receiver": u.meta.get("declaration"), "mode": u.meta.get("mode"), "composed_file": u.path,
                        "status": u.status})
    ev = {
        "property_id": prop, "tier": tier, "seed": seed, "level": "proof",
        "coverage": {
            "obligations": n_obl, "discharged": n_dis,
            "checker_cmd": results[0].cmd if results else "",
            "trusted_base": sorted(trusted),
            "samples": samples,
            "units": [{"unit": u.name, "status": u.status, "reason": u.reason, "wall_s": round(u.wall_s, 2), "smt_ms": u.smt_ms,
                       "functions": len(u.obligations), "canaries": u.canaries, "meta": u.meta if not u.meta.get("static") else {}} for u in results],
            "functions_under_contract": fn_rows if len(fn_rows) <= 400 else fn_rows[:400],
            "functions_under_contract_total": len(fn_rows),
            "items_extracted": sorted({" :: ".join([i["file"]] + i["path"]) for u in results for i in u.items}),
            "canaries": canary_tot,
            "programs": len(gen_units),
            "undecided": [{"unit": n, "reason": w} for n, w in undecided],
            "known_findings_reported": [h.get("what") for h, _, _ in known_hits],
            "solver_time_ms": sum(u.smt_ms for u in results),
            "bounded_units": reg.get("bounded_units", []),
            "not_covered": reg.get("not_covered", []),
            "explanation": reg.get("explanation", ""),
            "failures_outside_this_property": foreign,
            "failure_classes_counted": reg.get("classes") or "all",
        },
        "assumptions": COMMON_ASSUMPTIONS + reg.get("assumptions", []),
        "wall_s": round(wall, 2),
        "violations": len(violations),
    }
    if not only_unit:
        # runs against a private tree ($VERIF_REPO, development only) never touch the registered evidence files
        evdir = os.path.join(VERIF, "evidence") if os.path.realpath(C.REPO) == "/repo" else os.path.join(C.BUILD, "evidence_alt")
        os.makedirs(evdir, exist_ok=True)
        json.dump(ev, open(os.path.join(evdir, prop + ".json"), "w"), indent=1)
    for l in out_lines:
        print(l)
    print(f"{prop} tier={tier}: units={len(results)} obligations={n_obl} discharged={n_dis} violations={len(violations)} "
          f"undecided={len(undecided)} known={len(seen_known)} canaries={canary_tot['failed']}/{canary_tot['expected']} wall={wall:.1f}s")
    if violations:
        return 1
    if undecided:
        return 2
    if n_obl == 0:
        print(f"UNDECIDED property={prop}: zero obligations generated")
        return 2
    return 0


def replay(prop, path):
    d = json.load(open(path))
    if "units" in d:
        d = json.load(open(d["units"][0]["replay"]))
    rc = run_property(prop, "quick", 0, only_unit=d["unit"])
    return rc


def main(argv):
    prop = argv[0]
    if prop not in registry():
        print(f"unknown property {prop}")
        return 2
    tier = os.environ.get("VERIF_TIER", "quick")
    seed = int(os.environ.get("VERIF_SEED", "0") or 0)
    rebase = False
    i = 1
    while i < len(argv):
        if argv[i] == "--tier":
            tier = argv[i + 1]; i += 2
        elif argv[i] == "--replay":
            return replay(prop, argv[i + 1])
        elif argv[i] == "--rebaseline":
            rebase = True; i += 1
        else:
            i += 1
    return run_property(prop, tier, seed, rebaseline=rebase)
