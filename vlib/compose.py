"""Compose a Verus file from a unit template: contracts from /verif, bodies sliced from /repo on every run."""
import json, os, re, subprocess

VERIF = os.path.dirname(os.path.dirname(os.path.abspath(__file__)))
REPO = os.environ.get("VERIF_REPO", "/repo")
EXTRACT = os.path.join(VERIF, "tools/extract/target/release/vextract")
import hashlib as _hl
# runs against a private tree ($VERIF_REPO, development only) get their own scratch directory so that several can run at once
BUILD = os.path.join(VERIF, "build") if os.path.realpath(REPO) == "/repo" else os.path.join(VERIF, "build", "alt_" + _hl.sha1(REPO.encode()).hexdigest()[:8])
FEATURES = ["suggestions"]

SPEC_KW = r"(requires|ensures|decreases|recommends|default_ensures|no_unwind|opens_invariants|returns)\b"


class ExtractionError(Exception):
    """Lost anchor / drifted signature / unsupported construct: undecided, never an alarm."""


def resolve_file(f):
    if f.startswith("@gen:"):
        return os.path.join(BUILD, "gen", f[5:])
    if f.startswith("/"):
        return f
    return os.path.join(REPO, f)


def norm_sig(s):
    s = re.sub(r"//[^\n]*", "", s).strip()
    while s.startswith("#["):      # verifier attributes on the Verus side
        depth = 0
        for j, ch in enumerate(s):
            if ch == "[":
                depth += 1
            elif ch == "]":
                depth -= 1
                if depth == 0:
                    s = s[j + 1:].strip()
                    break
    s = re.sub(r"^(pub(\s*\([^)]*\))?\s+)?", "", s)
    # named return  -> (r: T)   =>  -> T
    m = re.search(r"->\s*\(\s*\w+\s*:", s)
    if m:
        i = s.index("(", m.start())
        depth = 0
        j = i
        while j < len(s):
            if s[j] in "([{<" and not (s[j] == "<" and False):
                depth += 1 if s[j] in "([{" else 0
            if s[j] in ")]}":
                depth -= 1
                if depth == 0:
                    break
            j += 1
        inner = s[m.end():j]
        s = s[:m.start()] + "-> " + inner.strip() + s[j + 1:]
    s = re.sub(r"\s+", "", s)
    s = s.replace(",)", ")").replace(",>", ">")
    return s


def sig_params(sig):
    """-> (text before the parameter list, [(name, rest)], text after) of a normalised signature, or None"""
    i = sig.find("(", sig.find("fn"))
    if i < 0:
        return None
    depth, j = 0, i
    while j < len(sig):
        if sig[j] in "([{":
            depth += 1
        elif sig[j] in ")]}":
            depth -= 1
            if depth == 0:
                break
        j += 1
    inner, parts, depth, cur = sig[i + 1:j], [], 0, ""
    prev = ""
    for ch in inner:
        if ch in "([{<":
            depth += 1
        elif ch in ")]}" or (ch == ">" and prev != "-"):
            depth -= 1
        if ch == "," and depth == 0:
            parts.append(cur); cur = ""
        else:
            cur += ch
        prev = ch
    if cur:
        parts.append(cur)
    ps = []
    for x in parts:
        m = re.match(r"^(mut)?(\w+):(.*)$", x)
        ps.append((m.group(2), m.group(3)) if m else (None, x))
    return sig[:i], ps, sig[j + 1:]


def renamed_params(csig, rsig):
    """[(contract-side name, repo-side name)] if the two signatures differ ONLY in parameter names, else None."""
    a, b = sig_params(norm_sig(csig)), sig_params(norm_sig(rsig))
    if not a or not b or a[0] != b[0] or a[2] != b[2] or len(a[1]) != len(b[1]):
        return None
    out = []
    for (na, ta), (nb, tb) in zip(a[1], b[1]):
        if ta != tb or (na is None) != (nb is None):
            return None
        if na != nb:
            if na is None or na == "self" or nb == "self":
                return None
            out.append((na, nb))
    return out or None


def split_sig(vsig):
    """Split the Verus-side header into (signature, spec clauses)."""
    m = re.search(r"^\s*" + SPEC_KW, vsig, re.M)
    if m:
        return vsig[:m.start()], vsig[m.start():]
    return vsig, ""


def parse_edit(line, unit, lineno):
    """`//@ loop 0 spec: text` etc. -> edit dict for vextract."""
    t = line.strip()
    m = re.match(r"loop (\d+) (spec|head|tail|after|before):\s*(.*)$", t, re.S)
    if m:
        op = {"spec": "loop_spec", "head": "loop_head", "tail": "loop_tail", "after": "after_loop", "before": "before_loop"}[m.group(2)]
        return {"op": op, "n": int(m.group(1)), "text": m.group(3)}
    m = re.match(r"loop (\d+) for_to_while (ref|val):\s*(.*)$", t, re.S)
    if m:
        return {"op": "for_to_while", "n": int(m.group(1)), "mode": m.group(2), "spec": m.group(3)}
    m = re.match(r"chain (\d+) (spec|head|pre_push|after|elem|flat):\s*(.*)$", t, re.S)
    if m:
        return {"op": "chain_part", "n": int(m.group(1)), "part": m.group(2), "text": m.group(3)}
    m = re.match(r"drop_nested_fn:\s*(\w+)$", t)
    if m:
        return {"op": "drop_nested_fn", "text": m.group(1)}
    m = re.match(r"guard_try( \+returns)?:\s*(.*)$", t, re.S)
    if m:
        return {"op": "guard_try", "text": m.group(2), "returns": bool(m.group(1))}
    m = re.match(r"match_str (\d+)( opt)?$", t)
    if m:
        return {"op": "match_str", "n": int(m.group(1)), "opt": bool(m.group(2))}
    m = re.match(r"closure (\d+)( opt)?:\s*(.*)$", t, re.S)
    if m:
        return {"op": "closure", "n": int(m.group(1)), "opt": bool(m.group(2)), "header": m.group(3)}
    m = re.match(r"replace (\w+)(?: (x\d+|any|opt|@\d+))?:\s*(.*?)\s*==>\s*(.*)$", t, re.S)
    if m:
        e = {"op": "replace", "rule": m.group(1), "from": m.group(3), "to": m.group(4)}
        c = m.group(2)
        if c in ("any", "opt"):
            e["count"] = c
        elif c and c.startswith("@"):
            e["nth"] = int(c[1:])
            e["count"] = "any"
        elif c:
            e["count"] = int(c[1:])
        return e
    m = re.match(r"(head|tail|pre_tail):\s*(.*)$", t, re.S)
    if m:
        return {"op": m.group(1), "text": m.group(2)}
    if t == "sig adds-return":
        return {"op": "sig_adds_return"}
    raise ExtractionError(f"{unit}:{lineno}: bad edit directive `{t}`")


def parse_template(text, unit):
    """-> list of segments: ('text', str) | ('fn', dict) | ('item', dict)."""
    segs = []
    lines = text.split("\n")
    i = 0
    buf = []
    stub_of = None
    while i < len(lines):
        ln = lines[i]
        s = ln.strip()
        if s.startswith("//@stubs-begin"):
            stub_of = s.split(None, 1)[1]
            i += 1
            continue
        if s == "//@stubs-end":
            stub_of = None
            i += 1
            continue
        if s.startswith("//@fn ") or s.startswith("//@item "):
            if buf:
                segs.append(("text", "\n".join(buf)))
                buf = []
            kind = "fn" if s.startswith("//@fn ") else "item"
            spec = s[len("//@" + kind):].strip()
            tags = []
            m = re.search(r"\[([^\]]*)\]\s*$", spec)
            if m and kind == "fn" and re.fullmatch(r"[A-Za-z0-9_,\-? =/.:]*", m.group(1)) and re.match(r"\s*(C\d+|\?)", m.group(1)):
                tags = [x.strip() for x in m.group(1).split(",") if x.strip()]
                spec = spec[:m.start()].strip()
            parts = [p.strip() for p in spec.split("::")]
            # re-join `::` that belong to paths inside a selector (selectors start with a keyword)
            sel = []
            for p in parts:
                if re.match(r"^(mod|impl|trait|fn|struct|enum|type|const|macro|macro_rules)\s", p) or not sel:
                    sel.append(p)
                else:
                    sel[-1] += "::" + p
            # `macro name(args) @ other/file.rs`: the macro_rules definition lives in another file of the tree
            sel = [re.sub(r" @ (\S+)$", lambda mm: " @ " + resolve_file(mm.group(1)), x) if x.startswith("macro ") else x for x in sel]
            d = {"file": sel[0], "path": sel[1:], "line": i + 1, "tags": tags, "stub_of": stub_of}
            i += 1
            if kind == "item":
                segs.append(("item", d))
                continue
            header = []
            while i < len(lines) and lines[i].strip() != "//@body":
                header.append(lines[i])
                i += 1
            if i >= len(lines):
                raise ExtractionError(f"{unit}:{d['line']}: //@body missing")
            i += 1
            edits = []
            while i < len(lines) and lines[i].strip() != "//@end":
                e = lines[i].strip()
                if e.startswith("//@+"):
                    if not edits:
                        raise ExtractionError(f"{unit}:{i+1}: continuation without directive")
                    edits[-1] = (edits[-1][0] + " " + e[4:].strip(), edits[-1][1])
                elif e.startswith("//@"):
                    edits.append((e[3:].strip(), i + 1))
                elif e == "" or e.startswith("//"):
                    pass
                else:
                    raise ExtractionError(f"{unit}:{i+1}: unexpected line inside //@body block")
                i += 1
            if i >= len(lines):
                raise ExtractionError(f"{unit}:{d['line']}: //@end missing")
            i += 1
            d["header"] = "\n".join(header)
            d["edits"] = [parse_edit(t, unit, n) for t, n in edits]
            # merge `chain N <part>:` lines into one edit per chain
            merged, chains = [], {}
            for e in d["edits"]:
                if e["op"] == "chain_part":
                    c = chains.get(e["n"])
                    if c is None:
                        c = {"op": "chain", "n": e["n"]}
                        chains[e["n"]] = c
                        merged.append(c)
                    c[e["part"]] = e["text"]
                else:
                    merged.append(e)
            d["edits"] = merged
            segs.append(("fn", d))
            continue
        buf.append(ln)
        i += 1
    if buf:
        segs.append(("text", "\n".join(buf)))
    return segs


def run_extract(requests):
    inp = json.dumps({"features": FEATURES, "requests": requests})
    p = subprocess.run([EXTRACT], input=inp, capture_output=True, text=True)
    if p.returncode != 0:
        raise ExtractionError("vextract failed: " + p.stderr[-2000:])
    return json.loads(p.stdout)["results"]


class Composed:
    def __init__(self):
        self.text = ""
        self.fns = []  # dicts: id, name, file, path, tags, line_start, line_end, body_start, log, nloops, src
        self.items = []
        self.stubs = []
        self.log = []


def compose(template_text, unit, canary=None, canary_loop=None):
    """canary: None | 'head' | 'loop_head' | 'after_loop' -> inject `assert(false)` probes (canary_loop = only at the loop with that
    ordinal of each function: probes of nested / consecutive loops of one function mask each other, a failed assert being assumed afterwards)."""
    segs = parse_template(template_text, unit)
    reqs = []
    for k, (kind, d) in enumerate(segs):
        if kind == "fn" and d.get("stub_of"):
            continue
        if kind in ("fn", "item"):
            edits = [e for e in d.get("edits", []) if e["op"] != "sig_adds_return"]
            reqs.append({"id": str(k), "file": resolve_file(d["file"]), "path": d["path"], "edits": edits})
    res = run_extract(reqs) if reqs else {}
    # second pass for canaries needs loop counts
    if canary in ("loop_head", "after_loop"):
        reqs2 = []
        for r in reqs:
            info = res[r["id"]]
            if info.get("ok") and info.get("kind") == "fn" and info["nloops"] > 0:
                extra = []
                for n in range(info["nloops"]):
                    if canary_loop is not None and n != canary_loop:
                        continue
                    mark = f"proof {{ assert(false); }} /*CANARY {r['id']}.{n}*/"
                    if canary == "loop_head":
                        extra.append({"op": "loop_head", "n": n, "text": mark})
                    else:
                        extra.append({"op": "after_loop", "n": n, "text": mark + ";" if False else mark})
                r2 = dict(r)
                r2["edits"] = r["edits"] + extra
                reqs2.append(r2)
        if reqs2:
            res.update(run_extract(reqs2))
    out = Composed()
    parts = []
    line = 1

    def emit(t):
        nonlocal line
        parts.append(t)
        line += t.count("\n")

    for k, (kind, d) in enumerate(segs):
        if kind == "text":
            emit(d + "\n")
            continue
        if kind == "fn" and d.get("stub_of"):
            out.stubs.append({"id": " :: ".join([d["file"]] + d["path"]), "contract_file": d["stub_of"]})
            emit("#[verifier::external_body] /*STUB: contract from %s, proved on the real body in its own unit*/\n" % d["stub_of"])
            emit(d["header"].rstrip() + "\n{ unimplemented!() }\n")
            continue
        r = res[str(k)]
        where = f"{unit}:{d['line']} {d['file']} :: {' :: '.join(d['path'])}"
        if not r.get("ok"):
            # `?default` on a trait-impl method: when the override no longer exists the trait's default body applies,
            # so the block is dropped and the obligations that depend on the override (probes, callers) decide.
            if kind == "fn" and "?default" in d.get("tags", []) and re.search(r"fn \w+: 0 matches", r.get("error", "")):
                out.log.append(f"{where}: override absent - trait default applies")
                emit(f"// [{d['path'][-1]} is not overridden in the working tree: the trait's default method applies]\n")
                continue
            # `?default=<file> :: trait X :: fn f`: when the override no longer exists, the trait's default BODY (read from the working tree)
            # is what runs for this type; it is verified in its place against the same contract
            dflt = next((t for t in d.get("tags", []) if t.startswith("?default=")), None)
            if kind == "fn" and dflt and re.search(r"fn \w+: 0 matches", r.get("error", "")):
                sel = [x.strip() for x in dflt[len("?default="):].split("::") if x.strip()]
                # re-join `a :: b` pieces that belong to one selector (`impl A for B` has no `::` inside here)
                req2 = dict(next(q for q in reqs if q["id"] == str(k)), file=resolve_file(sel[0]), path=sel[1:])
                r2 = run_extract([req2])[str(k)]
                if not r2.get("ok"):
                    raise ExtractionError(f"{where}: override absent and the trait default could not be read: {r2.get('error')}")
                r2["log"].append(f"override absent in the working tree: the trait's default body ({' :: '.join(sel)}) is verified in its place")
                out.log.append(f"{where}: override absent - trait default body verified in its place")
                r = r2
                r["sig_unchecked"] = True      # the default is declared with the trait's own spelling of the types
            else:
                raise ExtractionError(f"{where}: {r.get('error')}")
        if kind == "item":
            out.items.append({"file": d["file"], "path": d["path"], "log": r["log"]})
            emit(r["text"] + "\n")
            continue
        vsig, vspec = split_sig(d["header"])
        csig = vsig
        if any(e["op"] == "sig_adds_return" for e in d["edits"]):
            csig = re.sub(r"->.*$", "", vsig.strip(), flags=re.S)
            r["log"].append("R9:return type added to carry the panic outcome")
        body = r["body"]
        if not r.get("sig_unchecked") and norm_sig(csig) != norm_sig(r["sig"]):
            # R1c: parameters that were only RENAMED in the working tree keep their contract-side names in the header (the contract is
            # written over them) and are re-bound under the new names at the head of the body
            ren = renamed_params(csig, r["sig"])
            if ren is None:
                raise ExtractionError(
                    f"{where}: signature drift\n  repo    : {r['sig']}\n  contract: {vsig.strip()}")
            # second extraction with the new names mapped back to the contract-side ones (identifier tokens of the ORIGINAL body)
            req2 = next(q for q in reqs if q["id"] == str(k))
            req2 = dict(req2, edits=[{"op": "rename_ident", "from": new_, "to": old_} for old_, new_ in ren] + req2["edits"])
            r2 = run_extract([req2])[str(k)]
            if not r2.get("ok"):
                raise ExtractionError(f"{where}: {r2.get('error')}")
            r = r2
            body = r["body"]
        if canary == "head":
            body = "{ proof { assert(false); } /*CANARY %d.h*/ " % k + body[1:]
        start = line
        emit(d["header"].rstrip() + "\n")
        bstart = line
        emit(body + "\n")
        name = d["path"][-1].split(" ", 1)[1]
        out.fns.append({
            "id": " :: ".join([d["file"]] + d["path"]), "name": name, "file": d["file"], "path": d["path"],
            "tags": d["tags"], "line_start": start, "line_end": line - 1, "body_start": bstart,
            "log": r["log"], "nloops": r["nloops"], "nclosures": r["nclosures"], "k": k,
            "parent": " :: ".join([d["file"]] + d["path"][:-1]), "siblings": r.get("siblings"),
            "nspec": len(re.findall(r"[^,\s][^,]*,|[^,\s][^,]*$", vspec)) if vspec else 0,
        })
    out.text = "".join(parts)
    return out
