import json, os, sys, time
from . import compose as C
from . import driver as D


def dev_unit(name, args):
    D.ensure_tools()
    t = D.load_unit_text(name)
    kinds = ("head", "loop_head", "after_loop") if "--all-canaries" in args else (("head",) if "--canary" in args else ())
    u = D.run_unit(name, t, canaries=kinds)
    print(f"unit {name}: {u.status} {u.reason}  wall={u.wall_s:.1f}s smt={u.smt_ms}ms file={u.path}")
    for o in u.obligations:
        print(f"  {'OK  ' if o['ok'] else 'FAIL'} {o['fn']:50s} {o['time_us']/1000:8.1f}ms rlimit={o['rlimit']}")
    for f in u.failures:
        print(f"  !! {f['fn']}: {f['message']} @{f['line']}: {f['text'][:160]}")
    if u.status == "undecided" and hasattr(u, "stderr"):
        for ln in u.stderr.splitlines():
            try:
                d = json.loads(ln)
                print(d.get("rendered", "")[:1500])
            except Exception:
                pass
    print("  canaries:", u.canaries)
    print("  trusted:", u.trusted)
    return 0 if u.status == "ok" else (1 if u.status == "violation" else 2)


def main(argv):
    if not argv:
        print("usage: check <property-id> [--tier quick|thorough] [--replay file] | check unit <name>")
        return 2
    if argv[0] == "unit":
        return dev_unit(argv[1], argv[2:])
    if argv[0] == "l3dev":
        from . import l3
        D.ensure_tools()
        descs = getattr(l3, argv[1])()
        if len(argv) > 2 and not argv[2].startswith("-"):
            descs = [d for d in descs if d["name"] in argv[2].split(",")]
        rc = 0
        mode = "success" if "--success" in argv else ("err" if "--err" in argv else "full")
        for u in l3.run_descs(descs, canaries=(("head", "loop_head", "after_loop") if "--canary" in argv else ()), mode=mode, unit_span="--unitspan" in argv):
            bad = [o for o in u.obligations if not o["ok"]]
            print(f"{u.name}: {u.status} {u.reason[:300]} fns={len(u.obligations)} wall={u.wall_s:.1f}s smt={u.smt_ms}ms canaries={u.canaries}")
            for f in u.failures[:8]:
                print(f"   !! {f['fn']}: {f['message']} @{f['line']}: {f['text'][:200]}")
            if u.status == "undecided" and hasattr(u, "stderr"):
                for ln in u.stderr.splitlines():
                    try:
                        print(json.loads(ln).get("rendered", "")[:1200])
                    except Exception:
                        pass
            rc = max(rc, {"ok": 0, "violation": 1, "undecided": 2}[u.status])
        return rc
    from . import props
    return props.main(argv)
