"""Run Verus on one composed file and classify what it says."""
import json, os, re, subprocess, time

VERUS = os.environ.get("VERUS", "verus")
RLIMIT_PAT = re.compile(r"rlimit|Resource limit|timed? ?out", re.I)


class VerusResult:
    def __init__(self):
        self.ran = False
        self.compile_ok = False
        self.functions = {}     # name -> {success, time_us, rlimit, mode}
        self.diags = []         # {message, line, col, text, labels}
        self.verified = 0
        self.errors = 0
        self.wall_s = 0.0
        self.smt_ms = 0
        self.stderr = ""
        self.cmd = ""
        self.note = ""


def run(path, rlimit=None, multiple_errors=6, extra=None, timeout=900):
    cmd = [VERUS, path, "--output-json", "--time-expanded", "--triggers-mode", "silent",
           "--error-format=json", "--multiple-errors", str(multiple_errors)]
    if rlimit:
        cmd += ["--rlimit", str(rlimit)]
    if extra:
        cmd += extra
    r = VerusResult()
    r.cmd = " ".join(cmd)
    t0 = time.time()
    try:
        p = subprocess.run(cmd, capture_output=True, text=True, timeout=timeout, cwd=os.path.dirname(path))
    except subprocess.TimeoutExpired:
        r.note = "verus timed out"
        r.wall_s = time.time() - t0
        return r
    r.wall_s = time.time() - t0
    r.ran = True
    r.stderr = p.stderr
    try:
        j = json.loads(p.stdout)
    except Exception:
        j = None
    for ln in p.stderr.splitlines():
        ln = ln.strip()
        if not ln.startswith("{"):
            continue
        try:
            d = json.loads(ln)
        except Exception:
            continue
        if d.get("level") not in ("error",):
            continue
        msg = d.get("message", "")
        if msg.startswith("aborting due to"):
            continue
        prim = None
        labels = []
        def outer(sp):
            # a span inside a macro expansion: report the outermost call site in the composed file
            while sp.get("expansion") and sp["expansion"].get("span"):
                sp = sp["expansion"]["span"]
            return sp
        d["spans"] = [dict(outer(sp), label=sp.get("label"), is_primary=sp.get("is_primary")) for sp in d.get("spans", [])]
        for sp in d.get("spans", []):
            if sp.get("label"):
                labels.append(sp["label"])
            if sp.get("is_primary") and prim is None:
                prim = sp
        if prim is None and d.get("spans"):
            prim = d["spans"][0]
        text = ""
        if prim and prim.get("text"):
            t = prim["text"][0]
            text = t["text"][max(0, t["highlight_start"] - 1):t["highlight_end"] - 1] if len(prim["text"]) == 1 else prim["text"][0]["text"].strip()
        r.diags.append({
            "message": msg, "code": (d.get("code") or {}).get("code") if d.get("code") else None,
            "line": prim["line_start"] if prim else 0, "col": prim["column_start"] if prim else 0,
            "text": text.strip(), "labels": labels,
            "all_lines": sorted({sp["line_start"] for sp in d.get("spans", [])}),
            "rendered": d.get("rendered", ""),
        })
    if j is None:
        r.note = "no JSON from verus (front-end failure)"
        return r
    vr = j.get("verification-results", {})
    r.verified = vr.get("verified", 0)
    r.errors = vr.get("errors", 0)
    r.compile_ok = not vr.get("encountered-vir-error", False) and ("verified" in vr)
    # a rustc error (type error, unresolved name) leaves no function breakdown
    try:
        mods = j["times-ms"]["smt"]["smt-run-module-times"]
        r.smt_ms = j["times-ms"]["smt"].get("smt-run", 0)
    except Exception:
        mods = []
    for m in mods:
        for f in m.get("function-breakdown", []):
            name = f["function"]
            name = name.split("::", 1)[1] if "::" in name else name
            prev = r.functions.get(name)
            ent = {"success": f["success"], "time_us": f.get("time-micros", 0), "rlimit": f.get("rlimit", 0),
                   "mode": f.get("mode:", "")}
            if prev:
                ent["success"] = ent["success"] and prev["success"]
                ent["time_us"] += prev["time_us"]
                ent["rlimit"] += prev["rlimit"]
            r.functions[name] = ent
    if any(d["code"] for d in r.diags):
        r.compile_ok = False
        r.note = "rustc rejected the composed file"
    if vr.get("encountered-error") and r.errors == 0:
        r.compile_ok = False
        r.note = "composed file rejected before verification"
    if r.diags and not any(not f["success"] for f in r.functions.values()):
        r.compile_ok = False
        r.note = r.note or "diagnostics without a failing verification unit"
    if vr.get("encountered-vir-error"):
        r.note = "verus front end rejected the composed file"
    if not vr.get("success", False) and r.errors == 0 and not r.diags:
        r.compile_ok = False
        r.note = "verus failed without diagnostics"
    return r


def is_rlimit(d):
    return bool(RLIMIT_PAT.search(d["message"]))
