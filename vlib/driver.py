"""Per-property orchestration: compose units, run Verus, baseline/canary/trusted-base checks, evidence, verdict."""
import concurrent.futures as cf
import glob, hashlib, importlib, json, os, re, subprocess, sys, time

from . import compose as C
from . import verus as V

VERIF = C.VERIF
BUILD = C.BUILD
# composed files of static units go to a per-property directory (several properties share units; their checks may run at the same time)
UNITS_OUT = os.path.join(BUILD, "units" + ("_" + os.environ["VERIF_BUILD_SUB"] if os.environ.get("VERIF_BUILD_SUB") else ""))
TRUST_PAT = re.compile(
    r"assume\s*\(|admit\s*\(|#\[verifier::external_body\]|assume_specification|#\[verifier::external\]|"
    r"#\[verifier::external_type_specification\]|#\[verifier::external_trait_specification\]|#\[verifier::external_fn_specification\]|"
    r"#\[verifier::exec_allows_no_decreases_clause\]|#\[verifier::accept_recursive_types|#\[verifier::reject_recursive_types|uninterp\s+spec\s+fn|broadcast\s+axiom|axiom\s+fn")


def sh(cmd, **kw):
    return subprocess.run(cmd, shell=True, capture_output=True, text=True, **kw)


def ensure_tools():
    """Build framework tools (no-op when current). Failure here is a framework error (exit 2)."""
    env = dict(os.environ, CARGO_NET_OFFLINE="true")
    p = subprocess.run(["cargo", "build", "--offline", "--release", "-q"], cwd=os.path.join(VERIF, "tools/extract"),
                       capture_output=True, text=True, env=env)
    if p.returncode != 0:
        raise C.ExtractionError("building tools/extract failed:\n" + p.stderr[-3000:])


def expand_includes(text, seen=None):
    seen = seen or set()

    def rep(m):
        parts = m.group(1).split()
        p = os.path.join(VERIF, parts[0])
        if p in seen:
            return ""
        seen.add(p)
        body = expand_includes(open(p).read(), seen)
        if len(parts) > 1 and parts[1] == "stubs":
            # callee contracts only: each //@fn block becomes an external_body stub with the same header
            return "//@stubs-begin " + parts[0] + "\n" + body + "\n//@stubs-end"
        return body
    return re.sub(r"^[ \t]*//@include (.+)$", rep, text, flags=re.M)


def load_unit_text(name):
    p = os.path.join(VERIF, "units", name + ".vrs")
    return expand_includes(open(p).read())


def trusted_scan(text):
    """Every assumption-introducing construct in the composed file, with the name it is attached to."""
    out = []
    lines = text.split("\n")
    for i, ln in enumerate(lines):
        s = ln.split("//")[0]
        for m in TRUST_PAT.finditer(s):
            kind = re.sub(r"[\s(\[#\]]", "", m.group(0))
            if "/*STUB:" in ln:
                kind = "contract-stub"
            name = ""
            for j in range(i, min(i + 6, len(lines))):
                mm = re.search(r"\b(fn|struct|enum|trait|type)\s+(\w+)", lines[j])
                if mm:
                    name = mm.group(2)
                    break
                mm = re.search(r"assume_specification\s*(<[^>]*>)?\s*\[\s*([^\]]+)\]", lines[j])
                if mm:
                    name = re.sub(r"\s+", "", mm.group(2))
                    break
            if kind.startswith("assume_specification"):
                mm = re.search(r"assume_specification\s*(<[^>]*>)?\s*\[\s*([^\]]+)\]", " ".join(lines[i:i + 3]))
                if mm:
                    name = re.sub(r"\s+", "", mm.group(2))
            out.append(f"{kind}:{name}")
    return sorted(out)


class UnitResult:
    def __init__(self, name):
        self.name = name
        self.status = "ok"          # ok | violation | undecided
        self.reason = ""
        self.obligations = []       # {id, fn, ok, time_us, rlimit, mode, extracted}
        self.failures = []          # {fn, message, text, line, obligation}
        self.trusted = []
        self.canaries = {}          # kind -> {expected, failed}
        self.extract_log = []
        self.fns = []
        self.items = []
        self.stubs = []
        self.wall_s = 0.0
        self.smt_ms = 0
        self.path = ""
        self.cmd = ""
        self.props = None
        self.meta = {}


def fn_of_line(comp, line):
    for f in comp.fns:
        if f["line_start"] <= line <= f["line_end"]:
            return f
    return None


def enclosing_fn_name(text_lines, line):
    """Name of the non-extracted function (lemma, probe) enclosing a line of the composed file."""
    for j in range(min(line, len(text_lines)) - 1, -1, -1):
        m = re.match(r"\s*(pub\s+)?(open\s+|closed\s+)?(proof\s+|spec\s+|exec\s+)?fn\s+(\w+)", text_lines[j])
        if m:
            return m.group(4)
    return "?"


def run_unit(name, template, tier="quick", canaries=("head",), rlimit=None, meta=None):
    u = UnitResult(name)
    u.meta = meta or {}
    os.makedirs(UNITS_OUT, exist_ok=True)
    t0 = time.time()
    try:
        comp = C.compose(template, name)
    except C.ExtractionError as e:
        u.status = "undecided"
        u.reason = "extraction: " + str(e)
        return u
    path = os.path.join(UNITS_OUT, name + ".rs")
    open(path, "w").write(comp.text)
    u.path = path
    u.trusted = trusted_scan(comp.text)
    u.fns = comp.fns
    u.items = comp.items
    u.stubs = comp.stubs
    r = V.run(path, rlimit=rlimit)
    u.cmd = r.cmd
    u.smt_ms = r.smt_ms
    lines = comp.text.split("\n")
    if not r.ran or not r.compile_ok:
        u.status = "undecided"
        msgs = "; ".join(f"{d['message']} @{d['line']}" for d in r.diags[:4])
        u.reason = f"{r.note or 'composed file not accepted'}: {msgs}"
        u.wall_s = time.time() - t0
        u.stderr = r.stderr
        return u
    extracted_names = {}
    for f in comp.fns:
        extracted_names.setdefault(f["name"], []).append(f)
    for fname, info in sorted(r.functions.items()):
        short = fname.split("::")[-1]
        u.obligations.append({"id": f"{name}::{fname}", "fn": fname, "ok": info["success"], "time_us": info["time_us"],
                              "rlimit": info["rlimit"], "mode": info["mode"], "extracted": short in extracted_names})
    for d in r.diags:
        f = fn_of_line(comp, d["line"])
        if f is None:
            for l in d["all_lines"]:
                f = fn_of_line(comp, l)
                if f:
                    break
        fn = f["name"] if f else enclosing_fn_name(lines, d["line"])
        kind = d["message"]
        src_line = lines[d["line"] - 1].strip() if 0 < d["line"] <= len(lines) else ""
        u.failures.append({
            "fn": fn, "fn_id": f["id"] if f else None, "tags": f["tags"] if f else [], "message": kind,
            "text": d["text"] or src_line, "line": d["line"], "src": src_line,
            "rlimit": V.is_rlimit(d), "rendered": d["rendered"],
            "obligation": f"{name}::{fn}::{kind}::{(d['text'] or src_line)[:120]}",
        })
    failed_fns = [o for o in u.obligations if not o["ok"]]
    if u.failures or failed_fns:
        if u.failures and all(f["rlimit"] for f in u.failures):
            u.status = "undecided"
            u.reason = "solver resource limit"
        else:
            u.status = "violation"
    # vacuity canaries: only meaningful when the unit verifies
    if u.status == "ok":
        for kind in canaries:
            # head probes: one file. loop probes: one file per loop ordinal (a failed assert(false) is assumed afterwards, so probes in
            # nested or consecutive loops of one function would mask each other)
            rounds = [None]
            if kind != "head":
                try:
                    c0 = C.compose(template, name, canary=kind)
                except C.ExtractionError as e:
                    u.status = "undecided"
                    u.reason = f"canary extraction: {e}"
                    break
                nl = max([f["nloops"] for f in c0.fns] + [0])
                rounds = list(range(nl))
                if not rounds:
                    u.canaries[kind] = {"expected": 0, "failed": 0}
                    continue
            exp_total, hit_total, vac_names = 0, 0, []
            broken = False
            for rnd in rounds:
                try:
                    cc = C.compose(template, name, canary=kind, canary_loop=rnd)
                except C.ExtractionError as e:
                    u.status = "undecided"
                    u.reason = f"canary extraction: {e}"
                    broken = True
                    break
                marks = re.findall(r"/\*CANARY ([\w.]+)\*/", cc.text)
                if not marks:
                    continue
                cpath = os.path.join(UNITS_OUT, f"{name}__canary_{kind}{'' if rnd is None else rnd}.rs")
                open(cpath, "w").write(cc.text)
                cr = V.run(cpath, rlimit=rlimit, multiple_errors=12)
                if not cr.ran or not cr.functions:
                    u.status = "undecided"
                    u.reason = f"canary file ({kind}) not accepted by verus: {cr.note}"
                    broken = True
                    break
                clines = cc.text.split("\n")
                hit = set()
                for d in cr.diags:
                    for l in d["all_lines"]:
                        if 0 < l <= len(clines):
                            for m in re.findall(r"/\*CANARY ([\w.]+)\*/", clines[l - 1]):
                                hit.add(m)
                exp_total += len(marks)
                hit_total += len(hit & set(marks))
                missing = sorted(set(marks) - hit)
                if missing and kind in ("head", "loop_head"):
                    # a function whose probe does not fail although the function is reported as failing for another reason is not
                    # vacuous (multiple-errors may stop early); one that verifies WITH the probe is
                    failing_fns = {f.split("::")[-1] for f, v in cr.functions.items() if not v.get("success")}
                    for m in missing:
                        fn = next((f["name"] for f in cc.fns if str(f["k"]) == m.split(".")[0]), m)
                        if fn not in failing_fns:
                            vac_names.append(f"{fn}{'' if rnd is None else ' loop ' + str(rnd)}")
            if broken:
                break
            u.canaries[kind] = {"expected": exp_total, "failed": hit_total}
            if vac_names and kind == "head":
                u.status = "undecided"
                u.reason = f"vacuity canary ({kind}) did not fail in: {sorted(set(vac_names))} (contradictory precondition or unreachable body)"
                break
            if vac_names:
                # a loop whose head is unreachable is reported, not refused: emitted code does contain dead loops (e.g. the per-variant
                # loop of a receiver that declares no enum word returns before it)
                u.canaries[kind]["not_reached"] = sorted(set(vac_names))
    u.wall_s = time.time() - t0
    return u
