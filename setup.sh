#!/bin/sh
# Build the framework's own tools from files on disk only (offline).
set -e
cd "$(dirname "$0")"
export CARGO_NET_OFFLINE=true
(cd tools/extract && cargo build --offline --release -q)
if [ -d tools/expand ]; then (cd tools/expand && cargo build --offline --release -q); fi
mkdir -p build evidence replays
echo setup ok
