//! Stand-in for the `strsim` crate in the Kani units: the k-th call of `jaro_winkler` returns the k-th of four
//! symbolic scores the harness chose (each in [0, 1], never NaN). What the real scorer returns is the dependency's business.
pub static mut SCORES: [f64; 4] = [0.0; 4];
pub static mut CALLS: usize = 0;
pub fn jaro_winkler(_a: &str, _b: &str) -> f64 {
    unsafe {
        let k = CALLS;
        CALLS += 1;
        SCORES[k % 4]
    }
}
