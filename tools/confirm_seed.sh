#!/bin/sh
# confirm a seeded change myself: in a scratch worktree, (1) demo passes on pristine, (2) with the patch the workspace builds,
# the pinned suite passes, the demo fails. Then store it under /verif/seeded/<id>/.
# usage: tools/confirm_seed.sh <worktree> <dir with patch.diff demo.rs meta.json> <seed id> <property>
WT=$1; M=$2; ID=$3; PROP=$4
cd $WT || exit 3
git checkout -q -- . ; rm -f tests/demo_seed.rs core/tests/demo_seed.rs
PLACE=tests; PKG=""
if head -3 $M/demo.rs | grep -q "place: core/tests"; then PLACE=core/tests; PKG="-p darling_core"; mkdir -p core/tests; fi
cp $M/demo.rs $PLACE/demo_seed.rs
LOG=/tmp/confirm_$ID.log; : > $LOG
cargo test --offline $PKG --test demo_seed >> $LOG 2>&1; PRISTINE=$?
git apply $M/patch.diff || { echo "$ID: patch does not apply"; rm -f $PLACE/demo_seed.rs; exit 3; }
cargo test --offline $PKG --test demo_seed >> $LOG 2>&1; MUT=$?
rm -f $PLACE/demo_seed.rs; rmdir core/tests 2>/dev/null
cargo test --workspace --no-fail-fast --offline > /tmp/confirm_${ID}_suite.log 2>&1; SUITE=$?
FAILED=$(grep -c "^test .* FAILED" /tmp/confirm_${ID}_suite.log)
git checkout -q -- .
echo "$ID: demo pristine rc=$PRISTINE, demo mutated rc=$MUT, suite with patch rc=$SUITE failed_tests=$FAILED"
if [ $PRISTINE -eq 0 ] && [ $MUT -ne 0 ] && [ $SUITE -eq 0 ]; then
  D=/verif/seeded/$ID; mkdir -p $D
  cp $M/patch.diff $D/patch.diff; cp $M/demo.rs $D/demo.rs
  python3 - "$M/meta.json" "$D/meta.json" "$PROP" "$PRISTINE" "$MUT" "$SUITE" <<'PY'
import json,sys
src,dst,prop,pr,mu,su=sys.argv[1:]
try: m=json.load(open(src))
except Exception: m={}
m["property"]=prop
m["confirmed_by_me"]={"demo_on_pristine_rc":int(pr),"demo_with_patch_rc":int(mu),"pinned_suite_with_patch_rc":int(su),
  "ran":["cargo test --offline --test demo_seed (pristine)","git apply patch.diff","cargo test --offline --test demo_seed","cargo test --workspace --no-fail-fast --offline"]}
json.dump(m,open(dst,"w"),indent=1)
PY
  echo "$ID: stored"
else
  echo "$ID: NOT confirmed"
fi
