//! vexpand: run the working tree's own derive implementations (darling_core::derive::*) on receiver
//! declarations and print the emitted tokens.  stdin: JSON [{"id","trait","decl"}]  stdout: JSON {id: {"ok","tokens"|"error"|"panic"}}
use serde_json::{json, Value};
use std::io::Read;
use std::panic;

fn main() {
    let mut inp = String::new();
    std::io::stdin().read_to_string(&mut inp).unwrap();
    let reqs: Vec<Value> = serde_json::from_str(&inp).expect("bad json");
    let mut out = serde_json::Map::new();
    panic::set_hook(Box::new(|_| {}));
    for r in reqs {
        let id = r["id"].as_str().unwrap_or("?").to_string();
        let tr = r["trait"].as_str().unwrap_or("").to_string();
        let decl = r["decl"].as_str().unwrap_or("").to_string();
        let res = panic::catch_unwind(|| {
            let di: syn::DeriveInput = match syn::parse_str(&decl) {
                Ok(d) => d,
                Err(e) => return json!({"ok": false, "error": format!("declaration does not parse: {}", e)}),
            };
            let ts = match tr.as_str() {
                "FromMeta" => darling_core::derive::from_meta(&di),
                "FromDeriveInput" => darling_core::derive::from_derive_input(&di),
                "FromField" => darling_core::derive::from_field(&di),
                "FromVariant" => darling_core::derive::from_variant(&di),
                "FromTypeParam" => darling_core::derive::from_type_param(&di),
                "FromAttributes" => darling_core::derive::from_attributes(&di),
                _ => return json!({"ok": false, "error": "unknown trait"}),
            };
            json!({"ok": true, "tokens": ts.to_string()})
        });
        let v = match res {
            Ok(v) => v,
            Err(p) => {
                let msg = p.downcast_ref::<String>().cloned().or(p.downcast_ref::<&str>().map(|s| s.to_string())).unwrap_or_default();
                json!({"ok": false, "panic": msg})
            }
        };
        out.insert(id, v);
    }
    println!("{}", serde_json::to_string(&Value::Object(out)).unwrap());
}
