//! vextract: slice real items out of Rust source files by AST path and apply span-based,
//! logged rewrites, so the text handed to the verifier is demonstrably the code that runs.
//!
//! stdin : {"features": [..], "requests": [{"id", "file", "path": [sel..], "edits": [..]}]}
//! stdout: {"results": {id: {"ok": true, "kind": "fn", "sig", "body", "nloops", "nclosures", "log": [..]}
//!                        | {"ok": true, "kind": "item", "text", "log": [..]}
//!                        | {"ok": false, "error"}}}
//!
//! Selectors: "mod X", "impl T", "impl Tr for T", "trait X", "fn x", "struct X", "enum X", "type X",
//! "const X", "macro name(args)" (instantiate darling's own single-rule macro_rules).

use proc_macro2::{Delimiter, TokenStream, TokenTree};
use serde_json::{json, Value};
use std::collections::HashMap;
use std::io::Read;
use std::ops::Range;
use std::str::FromStr;
use syn::spanned::Spanned;
use syn::visit::Visit;

#[derive(Debug, Clone)]
struct Edit {
    start: usize,
    end: usize,
    text: String,
    seq: usize,
}

struct Edits {
    v: Vec<Edit>,
}

impl Edits {
    fn new() -> Self {
        Edits { v: vec![] }
    }
    fn replace(&mut self, r: Range<usize>, text: impl Into<String>) {
        let seq = self.v.len();
        self.v.push(Edit {
            start: r.start,
            end: r.end,
            text: text.into(),
            seq,
        });
    }
    fn insert(&mut self, at: usize, text: impl Into<String>) {
        self.replace(at..at, text);
    }
    fn insert_last(&mut self, at: usize, text: impl Into<String>) {
        let seq = usize::MAX / 2 + self.v.len();
        self.v.push(Edit { start: at, end: at, text: text.into(), seq });
    }
    /// Apply to `src[range]`.
    fn apply(mut self, src: &str, range: Range<usize>) -> Result<String, String> {
        // at the same start the WIDER replacement goes first: automatic token edits (`self` -> `this`) it contains then yield to it
        self.v.sort_by_key(|e| (e.start, if e.end == e.start { 0 } else { 1 }, std::cmp::Reverse(e.end), e.seq));
        let mut out = String::new();
        let mut pos = range.start;
        let mut last_was_deletion = false;
        for e in self.v {
            if e.start < range.start || e.end > range.end {
                continue;
            }
            if e.start < pos {
                // inside a region already replaced: fine when that region was deleted outright
                // (e.g. attribute removal inside a cfg-removed statement), otherwise ambiguous.
                // or was replaced wholesale by an explicit `replace` (automatic token edits inside it yield).
                let _ = last_was_deletion;
                if e.end <= pos {
                    continue;
                }
                return Err(format!("overlapping edits near byte {}", e.start));
            }
            out.push_str(&src[pos..e.start]);
            out.push_str(&e.text);
            if e.end > e.start {
                last_was_deletion = e.text.is_empty();
            }
            pos = e.end;
        }
        out.push_str(&src[pos..range.end]);
        Ok(out)
    }
}

fn squash(s: &str) -> String {
    s.chars().filter(|c| !c.is_whitespace()).collect()
}

fn br<T: Spanned>(t: &T) -> Range<usize> {
    t.span().byte_range()
}

// ---------------------------------------------------------------- cfg evaluation

fn cfg_eval(meta: &syn::Meta, features: &[String]) -> Option<bool> {
    match meta {
        syn::Meta::Path(p) => {
            if p.is_ident("test") || p.is_ident("compiletests") || p.is_ident("kani") {
                Some(false)
            } else {
                None
            }
        }
        syn::Meta::NameValue(nv) => {
            if nv.path.is_ident("feature") {
                if let syn::Expr::Lit(syn::ExprLit {
                    lit: syn::Lit::Str(s),
                    ..
                }) = &nv.value
                {
                    return Some(features.iter().any(|f| *f == s.value()));
                }
            }
            None
        }
        syn::Meta::List(l) => {
            let inner: Vec<syn::Meta> = l
                .parse_args_with(
                    syn::punctuated::Punctuated::<syn::Meta, syn::Token![,]>::parse_terminated,
                )
                .ok()?
                .into_iter()
                .collect();
            if l.path.is_ident("not") {
                cfg_eval(inner.first()?, features).map(|b| !b)
            } else if l.path.is_ident("all") {
                let mut r = true;
                for m in &inner {
                    r &= cfg_eval(m, features)?;
                }
                Some(r)
            } else if l.path.is_ident("any") {
                let mut r = false;
                for m in &inner {
                    r |= cfg_eval(m, features)?;
                }
                Some(r)
            } else {
                None
            }
        }
    }
}

/// None: no cfg attribute. Some(b): cfg evaluates to b. Err: unknown predicate.
fn attrs_cfg(attrs: &[syn::Attribute], features: &[String]) -> Result<Option<bool>, String> {
    let mut res = None;
    for a in attrs {
        if a.path().is_ident("cfg") {
            let m: syn::Meta = a.parse_args().map_err(|e| e.to_string())?;
            match cfg_eval(&m, features) {
                Some(b) => res = Some(res.unwrap_or(true) && b),
                None => return Err(format!("unknown cfg predicate: {}", squash(&quote::quote!(#m).to_string()))),
            }
        }
    }
    Ok(res)
}

// ---------------------------------------------------------------- path resolution

enum Scope<'a> {
    Items(Vec<&'a syn::Item>),
    ImplItems(Vec<&'a syn::ImplItem>),
    TraitItems(Vec<&'a syn::TraitItem>),
}

enum Found<'a> {
    Fn {
        attrs: &'a [syn::Attribute],
        sig: &'a syn::Signature,
        block: &'a syn::Block,
    },
    Item(&'a syn::Item),
}

struct Source {
    text: String,
    file: syn::File,
}

fn load(text: String) -> Result<Source, String> {
    let file = syn::parse_file(&text).map_err(|e| format!("parse error: {}", e))?;
    Ok(Source { text, file })
}

fn live_items<'a>(items: impl Iterator<Item = &'a syn::Item>, features: &[String]) -> Vec<&'a syn::Item> {
    items
        .filter(|it| {
            let attrs: &[syn::Attribute] = match it {
                syn::Item::Fn(x) => &x.attrs,
                syn::Item::Impl(x) => &x.attrs,
                syn::Item::Struct(x) => &x.attrs,
                syn::Item::Enum(x) => &x.attrs,
                syn::Item::Mod(x) => &x.attrs,
                syn::Item::Trait(x) => &x.attrs,
                syn::Item::Macro(x) => &x.attrs,
                syn::Item::Type(x) => &x.attrs,
                syn::Item::Const(x) => &x.attrs,
                _ => &[],
            };
            !matches!(attrs_cfg(attrs, features), Ok(Some(false)))
        })
        .collect()
}

fn impl_key(src: &str, imp: &syn::ItemImpl) -> String {
    let ty = squash(&src[br(&*imp.self_ty)]);
    match &imp.trait_ {
        Some((_, p, _)) => format!("impl{}for{}", squash(&src[br(p)]), ty),
        None => format!("impl{}", ty),
    }
}

fn step<'a>(
    src: &'a Source,
    scope: Scope<'a>,
    sel: &str,
    features: &[String],
) -> Result<Result<Scope<'a>, Found<'a>>, String> {
    let (kind, rest) = sel.split_once(' ').ok_or_else(|| format!("bad selector `{}`", sel))?;
    let rest = rest.trim();
    match scope {
        Scope::Items(items) => match kind {
            "mod" => {
                for it in &items {
                    if let syn::Item::Mod(m) = it {
                        if m.ident == rest {
                            if let Some((_, content)) = &m.content {
                                return Ok(Ok(Scope::Items(live_items(content.iter(), features))));
                            }
                        }
                    }
                }
                Err(format!("mod {} not found", rest))
            }
            "impl" => {
                let want = format!("impl{}", squash(rest));
                let mut out = vec![];
                for it in &items {
                    if let syn::Item::Impl(imp) = it {
                        if impl_key(&src.text, imp) == want {
                            for ii in &imp.items {
                                let attrs: &[syn::Attribute] = match ii {
                                    syn::ImplItem::Fn(f) => &f.attrs,
                                    _ => &[],
                                };
                                if !matches!(attrs_cfg(attrs, features), Ok(Some(false))) {
                                    out.push(ii);
                                }
                            }
                        }
                    }
                }
                if out.is_empty() {
                    Err(format!("`{}` not found (or empty)", sel))
                } else {
                    Ok(Ok(Scope::ImplItems(out)))
                }
            }
            "trait" => {
                for it in &items {
                    if let syn::Item::Trait(t) = it {
                        if t.ident == rest {
                            return Ok(Ok(Scope::TraitItems(t.items.iter().collect())));
                        }
                    }
                }
                Err(format!("trait {} not found", rest))
            }
            "fn" => {
                let mut hits = vec![];
                for it in &items {
                    if let syn::Item::Fn(f) = it {
                        if f.sig.ident == rest {
                            hits.push(f);
                        }
                    }
                }
                if hits.len() != 1 {
                    return Err(format!("fn {}: {} matches", rest, hits.len()));
                }
                let f = hits[0];
                Ok(Err(Found::Fn {
                    attrs: &f.attrs,
                    sig: &f.sig,
                    block: &f.block,
                }))
            }
            "macro_rules" => {
                // `//@item file :: macro_rules name`: darling's own macro_rules definition, pasted verbatim (rule R8b) so that invocations in
                // EXPRESSION position inside extracted bodies expand with the working tree's transcriber
                for it in &items {
                    if let syn::Item::Macro(m) = it {
                        if m.mac.path.is_ident("macro_rules") && m.ident.as_ref().map(|i| i == rest).unwrap_or(false) {
                            return Ok(Err(Found::Item(it)));
                        }
                    }
                }
                Err(format!("{} not found", sel))
            }
            "struct" | "enum" | "type" | "const" => {
                for it in &items {
                    let ok = match it {
                        syn::Item::Struct(s) => kind == "struct" && s.ident == rest,
                        syn::Item::Enum(s) => kind == "enum" && s.ident == rest,
                        syn::Item::Type(s) => kind == "type" && s.ident == rest,
                        syn::Item::Const(s) => kind == "const" && s.ident == rest,
                        _ => false,
                    };
                    if ok {
                        return Ok(Err(Found::Item(it)));
                    }
                }
                Err(format!("{} not found", sel))
            }
            _ => Err(format!("selector `{}` not valid at item level", sel)),
        },
        Scope::ImplItems(items) => match kind {
            "fn" => {
                let mut hits = vec![];
                for it in &items {
                    if let syn::ImplItem::Fn(f) = it {
                        if f.sig.ident == rest {
                            hits.push(f);
                        }
                    }
                }
                if hits.len() != 1 {
                    return Err(format!("fn {}: {} matches", rest, hits.len()));
                }
                let f = hits[0];
                Ok(Err(Found::Fn {
                    attrs: &f.attrs,
                    sig: &f.sig,
                    block: &f.block,
                }))
            }
            _ => Err(format!("selector `{}` not valid inside impl", sel)),
        },
        Scope::TraitItems(items) => match kind {
            "fn" => {
                for it in &items {
                    if let syn::TraitItem::Fn(f) = it {
                        if f.sig.ident == rest {
                            if let Some(b) = &f.default {
                                return Ok(Err(Found::Fn {
                                    attrs: &f.attrs,
                                    sig: &f.sig,
                                    block: b,
                                }));
                            } else {
                                return Err(format!("trait fn {} has no default body", rest));
                            }
                        }
                    }
                }
                Err(format!("trait fn {} not found", rest))
            }
            _ => Err(format!("selector `{}` not valid inside trait", sel)),
        },
    }
}

// ---------------------------------------------------------------- macro_rules instantiation (R8)

fn split_top_commas(ts: TokenStream) -> Vec<TokenStream> {
    let mut out = vec![];
    let mut cur: Vec<TokenTree> = vec![];
    for tt in ts {
        if let TokenTree::Punct(p) = &tt {
            if p.as_char() == ',' {
                out.push(cur.drain(..).collect());
                continue;
            }
        }
        cur.push(tt);
    }
    if !cur.is_empty() {
        out.push(cur.into_iter().collect());
    }
    out
}

fn collect_dollar_edits(
    ts: TokenStream,
    binds: &HashMap<String, String>,
    edits: &mut Edits,
) -> Result<(), String> {
    let tts: Vec<TokenTree> = ts.into_iter().collect();
    let mut i = 0;
    while i < tts.len() {
        match &tts[i] {
            TokenTree::Punct(p) if p.as_char() == '$' => {
                match tts.get(i + 1) {
                    Some(TokenTree::Ident(id)) => {
                        let name = id.to_string();
                        let val = binds
                            .get(&name)
                            .ok_or_else(|| format!("unbound macro variable ${}", name))?;
                        let s = p.span().byte_range().start;
                        let e = id.span().byte_range().end;
                        edits.replace(s..e, val.clone());
                        i += 2;
                        continue;
                    }
                    _ => return Err("macro repetition `$(..)` is outside the supported subset (R8)".into()),
                }
            }
            TokenTree::Group(g) => collect_dollar_edits(g.stream(), binds, edits)?,
            _ => {}
        }
        i += 1;
    }
    Ok(())
}

enum MElem {
    Single(String),
    Rep(String),
}

fn parse_matcher(ts: TokenStream) -> Option<Vec<MElem>> {
    let parts = split_top_commas(ts);
    let mut out = vec![];
    for p in parts {
        let v: Vec<TokenTree> = p.into_iter().collect();
        match (v.first(), v.get(1), v.get(2), v.get(3)) {
            (Some(TokenTree::Punct(d)), Some(TokenTree::Ident(n)), Some(TokenTree::Punct(c)), Some(TokenTree::Ident(_)))
                if d.as_char() == '$' && c.as_char() == ':' && v.len() == 4 =>
            {
                out.push(MElem::Single(n.to_string()));
            }
            // `$( $x:frag ),+` / `,*` (the separator comma was consumed by the split: the group is followed by + or *)
            (Some(TokenTree::Punct(d)), Some(TokenTree::Group(g)), _, _) if d.as_char() == '$' && g.delimiter() == Delimiter::Parenthesis => {
                let inner: Vec<TokenTree> = g.stream().into_iter().collect();
                match (inner.first(), inner.get(1)) {
                    (Some(TokenTree::Punct(d2)), Some(TokenTree::Ident(n))) if d2.as_char() == '$' => out.push(MElem::Rep(n.to_string())),
                    _ => return None,
                }
            }
            // the `+` / `*` that follows a `$(..),` group after the comma split
            (Some(TokenTree::Punct(pl)), None, _, _) if pl.as_char() == '+' || pl.as_char() == '*' => {}
            _ => return None,
        }
    }
    Some(out)
}

fn subst(ts: TokenStream, binds: &HashMap<String, TokenStream>, reps: &HashMap<String, Vec<TokenStream>>) -> Result<TokenStream, String> {
    let tts: Vec<TokenTree> = ts.into_iter().collect();
    let mut out: Vec<TokenTree> = vec![];
    let mut i = 0;
    while i < tts.len() {
        match &tts[i] {
            TokenTree::Punct(p) if p.as_char() == '$' => match tts.get(i + 1) {
                Some(TokenTree::Ident(id)) => {
                    let name = id.to_string();
                    if name == "crate" {
                        out.push(TokenTree::Ident(proc_macro2::Ident::new("crate", id.span())));
                    } else {
                        let v = binds.get(&name).ok_or_else(|| format!("unbound macro variable ${}", name))?;
                        out.extend(v.clone());
                    }
                    i += 2;
                    continue;
                }
                Some(TokenTree::Group(g)) if g.delimiter() == Delimiter::Parenthesis => {
                    // repetition block: $( body ) [sep] (*|+)
                    let mut j = i + 2;
                    let mut sep: Option<TokenTree> = None;
                    if let Some(TokenTree::Punct(q)) = tts.get(j) {
                        if q.as_char() != '*' && q.as_char() != '+' {
                            sep = Some(tts[j].clone());
                            j += 1;
                        }
                    }
                    match tts.get(j) {
                        Some(TokenTree::Punct(q)) if q.as_char() == '*' || q.as_char() == '+' => {}
                        _ => return Err("malformed macro repetition".into()),
                    }
                    // which repeated variable drives the block
                    let body_s = g.stream().to_string();
                    let var = reps.keys().find(|k| body_s.contains(&format!("$ {}", k)) || body_s.contains(&format!("${}", k)));
                    let var = var.ok_or("repetition block without a repeated variable")?.clone();
                    let vals = reps.get(&var).unwrap();
                    for (k, val) in vals.iter().enumerate() {
                        let mut b2 = binds.clone();
                        b2.insert(var.clone(), val.clone());
                        if k > 0 {
                            if let Some(s) = &sep {
                                out.push(s.clone());
                            }
                        }
                        out.extend(subst(g.stream(), &b2, reps)?);
                    }
                    i = j + 1;
                    continue;
                }
                _ => return Err("unsupported `$` form in macro transcriber".into()),
            },
            TokenTree::Group(g) => {
                let inner = subst(g.stream(), binds, reps)?;
                let mut ng = proc_macro2::Group::new(g.delimiter(), inner);
                ng.set_span(g.span());
                out.push(TokenTree::Group(ng));
            }
            other => out.push(other.clone()),
        }
        i += 1;
    }
    Ok(out.into_iter().collect())
}

/// Returns the instantiated transcriber text (rule R8). `def_items`: where the macro_rules definition lives (may be another
/// file); `items`: where the invocation must be found.
fn instantiate_macro(def_items: &[&syn::Item], items: &[&syn::Item], name: &str, args: &str) -> Result<String, String> {
    // `first, ..` selects the unique invocation whose leading arguments are `first` and instantiates it with the
    // arguments that invocation really has (so an edit of the invocation's other arguments is decided, not a lost anchor).
    let (args, open_ended) = match args.trim_end().strip_suffix("..") {
        Some(p) => (p.trim_end().trim_end_matches(',').to_string(), true),
        None => (args.to_string(), false),
    };
    let args_ts = TokenStream::from_str(&args).map_err(|e| format!("macro args: {}", e))?;
    let mut arg_list: Vec<TokenStream> = split_top_commas(args_ts.clone());
    let want = squash(&args_ts.to_string());
    let mut invoked = false;
    let mut def: Option<&syn::ItemMacro> = None;
    for it in def_items {
        if let syn::Item::Macro(m) = it {
            if m.mac.path.is_ident("macro_rules") && m.ident.as_ref().map(|i| i == name).unwrap_or(false) {
                def = Some(m);
            }
        }
    }
    let mut hits = 0;
    for it in items {
        if let syn::Item::Macro(m) = it {
            if m.mac.path.is_ident(name) {
                if open_ended {
                    let got: Vec<TokenStream> = split_top_commas(m.mac.tokens.clone());
                    let pre: Vec<String> = arg_list.iter().map(|a| squash(&a.to_string())).collect();
                    if got.len() >= pre.len() && got.iter().zip(pre.iter()).all(|(g, p)| squash(&g.to_string()) == *p) {
                        hits += 1;
                        invoked = true;
                        if hits == 1 {
                            // remember the real argument list
                            arg_list = got;
                        }
                    }
                } else {
                    let got = squash(&m.mac.tokens.to_string());
                    if got.trim_end_matches(',') == want {
                        invoked = true;
                    }
                }
            }
        }
    }
    if open_ended && hits > 1 {
        return Err(format!("invocation {}!({}, ..) is ambiguous ({} matches)", name, args, hits));
    }
    let def = def.ok_or_else(|| format!("macro_rules! {} not found", name))?;
    if !invoked {
        return Err(format!("invocation {}!({}) not found", name, args));
    }
    let tts: Vec<TokenTree> = def.mac.tokens.clone().into_iter().collect();
    let mut i = 0;
    let mut last_err = String::from("no rule");
    while i < tts.len() {
        let (m, t) = match (&tts.get(i), &tts.get(i + 3)) {
            (Some(TokenTree::Group(m)), Some(TokenTree::Group(t))) => (m, t),
            _ => break,
        };
        match parse_matcher(m.stream()) {
            None => last_err = "matcher outside the supported subset (R8): `$x:frag, ..` with at most one trailing `$($y:frag),+`".into(),
            Some(elems) => {
                let singles = elems.iter().filter(|e| matches!(e, MElem::Single(_))).count();
                let rep = elems.iter().find_map(|e| if let MElem::Rep(n) = e { Some(n.clone()) } else { None });
                let fits = match &rep {
                    None => arg_list.len() == singles,
                    Some(_) => arg_list.len() > singles,
                };
                if fits {
                    let mut binds = HashMap::new();
                    let mut reps = HashMap::new();
                    let mut k = 0;
                    for e in &elems {
                        match e {
                            MElem::Single(n) => {
                                binds.insert(n.clone(), arg_list[k].clone());
                                k += 1;
                            }
                            MElem::Rep(n) => {
                                reps.insert(n.clone(), arg_list[k..].to_vec());
                                k = arg_list.len();
                            }
                        }
                    }
                    return Ok(subst(t.stream(), &binds, &reps)?.to_string());
                } else {
                    last_err = format!("arity mismatch: rule takes {}{}, got {}", singles, if rep.is_some() { "+" } else { "" }, arg_list.len());
                }
            }
        }
        i += 4;
        if let Some(TokenTree::Punct(p)) = tts.get(i) {
            if p.as_char() == ';' {
                i += 1;
            }
        }
    }
    Err(format!("macro {}: {}", name, last_err))
}

// ---------------------------------------------------------------- lexer for `replace`

#[derive(Debug)]
struct Tok {
    s: usize,
    e: usize,
}

fn lex(text: &str) -> Vec<Tok> {
    let b = text.as_bytes();
    let mut i = 0;
    let mut out = vec![];
    while i < b.len() {
        let c = b[i];
        if c.is_ascii_whitespace() {
            i += 1;
        } else if c == b'/' && i + 1 < b.len() && b[i + 1] == b'/' {
            while i < b.len() && b[i] != b'\n' {
                i += 1;
            }
        } else if c == b'/' && i + 1 < b.len() && b[i + 1] == b'*' {
            let mut depth = 1;
            i += 2;
            while i < b.len() && depth > 0 {
                if b[i] == b'/' && i + 1 < b.len() && b[i + 1] == b'*' {
                    depth += 1;
                    i += 2;
                } else if b[i] == b'*' && i + 1 < b.len() && b[i + 1] == b'/' {
                    depth -= 1;
                    i += 2;
                } else {
                    i += 1;
                }
            }
        } else if c == b'"' {
            let s = i;
            i += 1;
            while i < b.len() && b[i] != b'"' {
                if b[i] == b'\\' {
                    i += 1;
                }
                i += 1;
            }
            i += 1;
            out.push(Tok { s, e: i.min(b.len()) });
        } else if c.is_ascii_alphanumeric() || c == b'_' || c >= 0x80 {
            let s = i;
            while i < b.len() && (b[i].is_ascii_alphanumeric() || b[i] == b'_' || b[i] >= 0x80) {
                i += 1;
            }
            out.push(Tok { s, e: i });
        } else if c == b'\'' {
            // char literal or lifetime
            let s = i;
            if i + 2 < b.len() && b[i + 1] == b'\\' {
                i += 2;
                while i < b.len() && b[i] != b'\'' {
                    i += 1;
                }
                i += 1;
            } else if i + 2 < b.len() && b[i + 2] == b'\'' {
                i += 3;
            } else {
                i += 1;
            }
            out.push(Tok { s, e: i.min(b.len()) });
        } else {
            out.push(Tok { s: i, e: i + 1 });
            i += 1;
        }
    }
    out
}

const ONE_IDENT: &str = "\u{1}one-ident";
/// Token-sequence search. `$$` in the pattern is a wildcard: a (lazily) minimal, bracket-balanced run of
/// tokens, captured as $1, $2, .. for the replacement text.
fn find_matches(text: &str, pat: &str) -> Vec<(Range<usize>, Vec<Range<usize>>)> {
    let tt = lex(text);
    let pp0 = lex(pat);
    // fold `$` `$` into one wildcard marker
    let mut pp: Vec<Option<&str>> = vec![];
    let mut i = 0;
    while i < pp0.len() {
        let t = &pat[pp0[i].s..pp0[i].e];
        if t == "$" && i + 1 < pp0.len() && &pat[pp0[i + 1].s..pp0[i + 1].e] == "$" && pp0[i + 1].s == pp0[i].e {
            pp.push(None);
            i += 2;
        } else if t == "$" && i + 1 < pp0.len() && &pat[pp0[i + 1].s..pp0[i + 1].e] == "_" && pp0[i + 1].s == pp0[i].e {
            // `$_`: exactly one identifier or literal token (captured like `$$`) - anchors that must not depend on a local's name
            pp.push(Some(ONE_IDENT));
            i += 2;
        } else {
            pp.push(Some(t));
            i += 1;
        }
    }
    let mut out = vec![];
    if pp.is_empty() {
        return out;
    }
    fn go(text: &str, tt: &[Tok], pp: &[Option<&str>], ti: usize, pi: usize, caps: &mut Vec<Range<usize>>) -> Option<usize> {
        if pi == pp.len() {
            return Some(ti);
        }
        match pp[pi] {
            Some(p) if p == ONE_IDENT => {
                if ti < tt.len() && text[tt[ti].s..tt[ti].e].chars().next().map_or(false, |c| c.is_alphanumeric() || c == '_' || c == '"' || c == '\'') {
                    caps.push(tt[ti].s..tt[ti].e);
                    let r = go(text, tt, pp, ti + 1, pi + 1, caps);
                    if r.is_none() {
                        caps.pop();
                    }
                    r
                } else {
                    None
                }
            }
            Some(p) => {
                if ti < tt.len() && &text[tt[ti].s..tt[ti].e] == p {
                    go(text, tt, pp, ti + 1, pi + 1, caps)
                } else {
                    None
                }
            }
            None => {
                let mut depth: i32 = 0;
                let mut k = ti;
                loop {
                    if depth == 0 {
                        let mark = caps.len();
                        let s = if k > ti { tt[ti].s } else if ti < tt.len() { tt[ti].s } else { text.len() };
                        let e = if k > ti { tt[k - 1].e } else { s };
                        caps.push(s..e);
                        if let Some(end) = go(text, tt, pp, k, pi + 1, caps) {
                            return Some(end);
                        }
                        caps.truncate(mark);
                    }
                    if k >= tt.len() {
                        return None;
                    }
                    match &text[tt[k].s..tt[k].e] {
                        "(" | "[" | "{" => depth += 1,
                        ")" | "]" | "}" => {
                            depth -= 1;
                            if depth < 0 {
                                return None;
                            }
                        }
                        _ => {}
                    }
                    k += 1;
                }
            }
        }
    }
    let mut i = 0;
    while i < tt.len() {
        let mut caps = vec![];
        if pp[0].is_some() {
            if let Some(end) = go(text, &tt, &pp, i, 0, &mut caps) {
                if end > i {
                    out.push((tt[i].s..tt[end - 1].e, caps));
                    i = end;
                    continue;
                }
            }
        }
        i += 1;
    }
    out
}

// ---------------------------------------------------------------- body visitor

#[derive(Default)]
struct BodyScan {
    loops: Vec<LoopInfo>,
    closures: Vec<ClosureInfo>,
    attr_nodes: Vec<(Vec<syn::Attribute>, Range<usize>)>,
    field_values: Vec<(Vec<syn::Attribute>, Range<usize>)>,
    str_matches: Vec<StrMatch>,
    tries: Vec<(usize, Range<usize>)>, // (start of operand, range of the `?` token)
    returns: Vec<Range<usize>>,
    chains: Vec<Chain>,
}

/// `BASE.into_iter()|.iter() {.map|.filter|.filter_map|.flat_map(..)}* .collect()|.sum()` (rule R2)
struct Chain {
    whole: Range<usize>,
    base: Range<usize>,
    by_ref: bool,
    stages: Vec<Stage>,
    terminal: String,
}

struct Stage {
    kind: String,
    // closure: (params text, body range) ; otherwise the argument expression text range (a function path)
    closure: Option<(Vec<Range<usize>>, Range<usize>)>,
    arg: Range<usize>,
}

fn parse_chain(e: &syn::ExprMethodCall) -> Option<Chain> {
    let term = e.method.to_string();
    if term != "collect" && term != "sum" {
        return None;
    }
    if !e.args.is_empty() {
        return None;
    }
    let mut stages = vec![];
    let mut cur: &syn::Expr = &e.receiver;
    loop {
        match cur {
            syn::Expr::MethodCall(m) => {
                let name = m.method.to_string();
                match name.as_str() {
                    "map" | "filter" | "filter_map" | "flat_map" if m.args.len() == 1 => {
                        let a = &m.args[0];
                        let closure = if let syn::Expr::Closure(c) = a {
                            Some((c.inputs.iter().map(|p| br(p)).collect(), br(&*c.body)))
                        } else {
                            None
                        };
                        stages.push(Stage { kind: name, closure, arg: br(a) });
                        cur = &m.receiver;
                    }
                    "into_iter" | "iter" if m.args.is_empty() => {
                        stages.reverse();
                        return Some(Chain {
                            whole: br(e),
                            base: br(&*m.receiver),
                            by_ref: name == "iter",
                            stages,
                            terminal: term,
                        });
                    }
                    _ => return None,
                }
            }
            _ => return None,
        }
    }
}

struct StrArm {
    pat: Range<usize>,
    lits: Vec<String>,          // empty => catch-all
    bind: Option<String>,       // catch-all binding ident
    body: Range<usize>,
    body_is_block: bool,
    comma: Option<Range<usize>>,
    has_guard: bool,
}

struct StrMatch {
    end: usize,         // after the closing brace
    head: Range<usize>, // `match SCRUT {` including the brace
    scrut: Range<usize>,
    arms: Vec<StrArm>,
}

fn pat_strs(p: &syn::Pat, out: &mut Vec<String>) -> bool {
    match p {
        syn::Pat::Lit(l) => {
            if let syn::Lit::Str(s) = &l.lit {
                out.push(s.token().to_string());
                true
            } else {
                false
            }
        }
        syn::Pat::Or(o) => o.cases.iter().all(|c| pat_strs(c, out)),
        _ => false,
    }
}

struct LoopInfo {
    whole: Range<usize>,
    body: Range<usize>,
    for_parts: Option<(Range<usize>, Range<usize>)>, // pat, expr
}

struct ClosureInfo {
    header: Range<usize>, // from first `|` (or move) to start of body
    body: Range<usize>,
    body_is_block: bool,
}

impl<'ast> Visit<'ast> for BodyScan {
    fn visit_expr_for_loop(&mut self, n: &'ast syn::ExprForLoop) {
        let start = n.label.as_ref().map(|l| br(l).start).unwrap_or(br(&n.for_token).start);
        self.loops.push(LoopInfo {
            whole: start..br(&n.body).end,
            body: br(&n.body),
            for_parts: Some((br(&*n.pat), br(&*n.expr))),
        });
        syn::visit::visit_expr_for_loop(self, n);
    }
    fn visit_expr_while(&mut self, n: &'ast syn::ExprWhile) {
        let start = n.label.as_ref().map(|l| br(l).start).unwrap_or(br(&n.while_token).start);
        self.loops.push(LoopInfo {
            whole: start..br(&n.body).end,
            body: br(&n.body),
            for_parts: None,
        });
        syn::visit::visit_expr_while(self, n);
    }
    fn visit_expr_loop(&mut self, n: &'ast syn::ExprLoop) {
        let start = n.label.as_ref().map(|l| br(l).start).unwrap_or(br(&n.loop_token).start);
        self.loops.push(LoopInfo {
            whole: start..br(&n.body).end,
            body: br(&n.body),
            for_parts: None,
        });
        syn::visit::visit_expr_loop(self, n);
    }
    fn visit_expr_closure(&mut self, n: &'ast syn::ExprClosure) {
        let start = n
            .movability
            .as_ref()
            .map(|m| br(m).start)
            .or(n.capture.as_ref().map(|m| br(m).start))
            .unwrap_or(br(&n.or1_token).start);
        let body = br(&*n.body);
        self.closures.push(ClosureInfo {
            header: start..body.start,
            body: body.clone(),
            body_is_block: matches!(&*n.body, syn::Expr::Block(_)),
        });
        syn::visit::visit_expr_closure(self, n);
    }
    fn visit_expr_match(&mut self, n: &'ast syn::ExprMatch) {
        let mut any_str = false;
        let mut arms = vec![];
        for a in &n.arms {
            let mut lits = vec![];
            let is_str = pat_strs(&a.pat, &mut lits);
            any_str |= is_str;
            let bind = match &a.pat {
                syn::Pat::Ident(pi) => Some(pi.ident.to_string()),
                _ => None,
            };
            arms.push(StrArm {
                pat: br(&a.pat),
                lits: if is_str { lits } else { vec![] },
                bind,
                body: br(&*a.body),
                body_is_block: matches!(&*a.body, syn::Expr::Block(_)),
                comma: a.comma.as_ref().map(|c| br(c)),
                has_guard: a.guard.is_some() || !(is_str || matches!(&a.pat, syn::Pat::Ident(_) | syn::Pat::Wild(_))),
            });
        }
        if any_str {
            self.str_matches.push(StrMatch {
                end: br(n).end,
                head: br(&n.match_token).start..br(&n.brace_token.span.open()).end,
                scrut: br(&*n.expr),
                arms,
            });
        }
        syn::visit::visit_expr_match(self, n);
    }
    fn visit_expr_method_call(&mut self, n: &'ast syn::ExprMethodCall) {
        if let Some(c) = parse_chain(n) {
            self.chains.push(c);
        }
        syn::visit::visit_expr_method_call(self, n);
    }
    fn visit_expr_return(&mut self, n: &'ast syn::ExprReturn) {
        self.returns.push(br(n));
        syn::visit::visit_expr_return(self, n);
    }
    fn visit_expr_try(&mut self, n: &'ast syn::ExprTry) {
        self.tries.push((br(&*n.expr).start, br(&n.question_token)));
        syn::visit::visit_expr_try(self, n);
    }
    fn visit_stmt(&mut self, n: &'ast syn::Stmt) {
        match n {
            syn::Stmt::Local(l) if !l.attrs.is_empty() => {
                self.attr_nodes.push((l.attrs.clone(), br(n)));
            }
            syn::Stmt::Expr(e, semi) => {
                let attrs = expr_attrs(e);
                if !attrs.is_empty() {
                    let mut r = br(e);
                    // include attributes (expr span covers them already) and the semicolon
                    if let Some(s) = semi {
                        r.end = br(s).end;
                    }
                    self.attr_nodes.push((attrs.to_vec(), r));
                }
            }
            syn::Stmt::Macro(m) if !m.attrs.is_empty() => {
                self.attr_nodes.push((m.attrs.clone(), br(n)));
            }
            _ => {}
        }
        syn::visit::visit_stmt(self, n);
    }
    fn visit_field_value(&mut self, n: &'ast syn::FieldValue) {
        if !n.attrs.is_empty() {
            self.field_values.push((n.attrs.clone(), br(n)));
        }
        syn::visit::visit_field_value(self, n);
    }
}

fn expr_attrs(e: &syn::Expr) -> &[syn::Attribute] {
    match e {
        syn::Expr::Block(x) => &x.attrs,
        syn::Expr::Call(x) => &x.attrs,
        syn::Expr::MethodCall(x) => &x.attrs,
        syn::Expr::Macro(x) => &x.attrs,
        syn::Expr::If(x) => &x.attrs,
        syn::Expr::Match(x) => &x.attrs,
        syn::Expr::Assign(x) => &x.attrs,
        syn::Expr::ForLoop(x) => &x.attrs,
        syn::Expr::While(x) => &x.attrs,
        syn::Expr::Path(x) => &x.attrs,
        _ => &[],
    }
}

fn self_token_edits(ts: TokenStream, base: usize, edits: &mut Edits) {
    for tt in ts {
        match tt {
            TokenTree::Ident(id) if id == "self" => {
                let r = id.span().byte_range();
                edits.replace(base + r.start..base + r.end, "this");
            }
            TokenTree::Group(g) => {
                // group spans: recurse on the stream (token spans are absolute within the lexed string)
                let _ = Delimiter::None;
                self_token_edits(g.stream(), base, edits);
            }
            _ => {}
        }
    }
}

// ---------------------------------------------------------------- request handling

fn handle_fn(
    src: &str,
    attrs: &[syn::Attribute],
    sig: &syn::Signature,
    block: &syn::Block,
    edits_req: &[Value],
    features: &[String],
) -> Result<Value, String> {
    let _ = attrs;
    // R1c: parameters that were only renamed in the working tree are mapped back to their contract-side names BEFORE anything else
    // (identifier tokens of signature and body, never a token after `.`), and the function is then handled as if it had been written so
    let renames: Vec<(String, String)> = edits_req
        .iter()
        .filter(|e| e["op"].as_str() == Some("rename_ident"))
        .filter_map(|e| Some((e["from"].as_str()?.to_string(), e["to"].as_str()?.to_string())))
        .collect();
    if !renames.is_empty() {
        let whole = br(sig).start..br(block).end;
        let text = &src[whole.clone()];
        let toks = lex(text);
        let is_var = |i: usize| i == 0 || &text[toks[i - 1].s..toks[i - 1].e] != ".";
        let mut out = String::new();
        let mut pos = 0;
        for (i, t) in toks.iter().enumerate() {
            let w = &text[t.s..t.e];
            if !is_var(i) {
                continue;
            }
            if renames.iter().any(|(_, to)| to == w) {
                return Err(format!("parameter renamed to `{}`... but the contract-side name `{}` is still used in the function (would capture)", w, w));
            }
            if let Some((_, to)) = renames.iter().find(|(from, _)| from == w) {
                out.push_str(&text[pos..t.s]);
                out.push_str(to);
                pos = t.e;
            }
        }
        out.push_str(&text[pos..]);
        let f: syn::ImplItemFn = syn::parse_str(&out).map_err(|e| format!("re-parse after parameter rename: {}", e))?;
        let rest: Vec<Value> = edits_req.iter().filter(|e| e["op"].as_str() != Some("rename_ident")).cloned().collect();
        let mut v = handle_fn(&out, &f.attrs, &f.sig, &f.block, &rest, features)?;
        if let Some(l) = v.get_mut("log").and_then(|l| l.as_array_mut()) {
            l.insert(0, json!(format!("R1c:renamed parameter(s) mapped back to the contract-side names: {}", renames.iter().map(|(a, b)| format!("{} -> {}", a, b)).collect::<Vec<_>>().join(", "))));
        }
        return Ok(v);
    }
    let mut log: Vec<String> = vec![];
    let mut edits = Edits::new();
    let brange = br(block);
    let body_text = &src[brange.clone()];

    let mut scan = BodyScan::default();
    scan.visit_block(block);

    // D: cfg'd / attributed statements
    let fvs: Vec<(Vec<syn::Attribute>, Range<usize>)> =
        scan.field_values.iter().map(|(a, r)| (a.clone(), with_comma(src, r.clone()))).collect();
    for (attrs, r) in scan.attr_nodes.iter().chain(fvs.iter()) {
        match attrs_cfg(attrs, features)? {
            Some(false) => {
                edits.replace(r.clone(), "");
                log.push("D:cfg-false node removed".into());
            }
            _ => {
                for a in attrs {
                    edits.replace(br(a), "");
                }
                log.push("D:attribute removed".into());
            }
        }
    }

    // R1: `mut self` / `mut x: T` parameters
    let mut head = String::new();
    let mut sig_edits = Edits::new();
    let mut self_to_this = false;
    for inp in &sig.inputs {
        match inp {
            syn::FnArg::Receiver(r) => {
                if r.reference.is_none() {
                    if let Some(m) = &r.mutability {
                        let mr = br(m);
                        sig_edits.replace(mr.start..br(&r.self_token).start, "");
                        head.push_str(" let mut this = self;");
                        self_to_this = true;
                        log.push("R1:mut self -> this".into());
                    }
                }
            }
            syn::FnArg::Typed(t) => {
                if let syn::Pat::Wild(w) = &*t.pat {
                    // R1b: Verus needs every parameter named; `_: T` becomes `_pK: T` (K = position)
                    let k = sig.inputs.iter().position(|x| std::ptr::eq(x, inp)).unwrap_or(0);
                    sig_edits.replace(br(w), format!("_p{}", k));
                    log.push(format!("R1b:`_` parameter {} named _p{}", k, k));
                }
                if matches!(&*t.pat, syn::Pat::Tuple(_) | syn::Pat::TupleStruct(_) | syn::Pat::Struct(_)) {
                    // R1d: Verus needs every parameter to be an identifier; a destructuring parameter `PAT: T` becomes `_pK: T`
                    // and the pattern is re-bound by `let PAT = _pK;` at the head of the body (same bindings, same moves)
                    let k = sig.inputs.iter().position(|x| std::ptr::eq(x, inp)).unwrap_or(0);
                    let pr = br(&*t.pat);
                    let pat_text = src[pr.clone()].to_string();
                    sig_edits.replace(pr, format!("_p{}", k));
                    head.push_str(&format!(" let {} = _p{};", pat_text, k));
                    log.push(format!("R1d:pattern parameter {} named _p{}", k, k));
                }
                if let syn::Pat::Ident(pi) = &*t.pat {
                    if let (Some(m), None) = (&pi.mutability, &pi.by_ref) {
                        sig_edits.replace(br(m).start..br(&pi.ident).start, "");
                        let nm = pi.ident.to_string();
                        head.push_str(&format!(" let mut {0} = {0};", nm));
                        log.push(format!("R1:mut {}", pi.ident));
                    }
                }
            }
        }
    }
    if self_to_this {
        let ts = TokenStream::from_str(body_text).map_err(|e| format!("lex body: {}", e))?;
        self_token_edits(ts, brange.start, &mut edits);
    }

    let lp = |n: usize| -> Result<&LoopInfo, String> {
        scan.loops.get(n).ok_or_else(|| format!("loop {} not found ({} loops)", n, scan.loops.len()))
    };

    for e in edits_req {
        let op = e["op"].as_str().unwrap_or("");
        let text = e["text"].as_str().unwrap_or("").to_string();
        let n = e["n"].as_u64().unwrap_or(0) as usize;
        match op {
            "head" => head.push_str(&format!(" {}", text)),
            "tail" => edits.insert(brange.end - 1, format!(" {} ", text)),
            "pre_tail" => {
                let last = block.stmts.last().ok_or("pre_tail: empty body")?;
                edits.insert(br(last).start, format!("{} ", text));
            }
            "loop_spec" => {
                let l = lp(n)?;
                edits.insert(l.body.start, format!("{} ", text));
            }
            "loop_head" => {
                let l = lp(n)?;
                edits.insert(l.body.start + 1, format!(" {} ", text));
            }
            "loop_tail" => {
                let l = lp(n)?;
                edits.insert(l.body.end - 1, format!(" {} ", text));
            }
            "after_loop" => {
                let l = lp(n)?;
                edits.insert(l.whole.end, format!(" {} ", text));
            }
            "before_loop" => {
                let l = lp(n)?;
                edits.insert(l.whole.start, format!(" {} ", text));
            }
            "for_to_while" => {
                let l = lp(n)?;
                let (pat, expr) = l
                    .for_parts
                    .clone()
                    .ok_or_else(|| format!("loop {} is not a for loop", n))?;
                let mode = e["mode"].as_str().unwrap_or("ref");
                let spec = e["spec"].as_str().unwrap_or("");
                let pat_t = &src[pat];
                let expr_t = &src[expr];
                // `for x in v.iter()` and `for x in &v` are the same loop: the index form needs the collection, not its iterator
                let expr_norm = match expr_t.trim().strip_suffix(".iter()") {
                    Some(base) if mode == "ref" => format!("&({})", base.trim()),
                    _ => expr_t.to_string(),
                };
                let expr_t: &str = &expr_norm;
                let (seq_expr, bind) = match mode {
                    "ref" => (expr_t.to_string(), format!("let {} = &__s{}[__i{}];", pat_t, n, n)),
                    "val" => (expr_t.to_string(), format!("let {} = __s{}[__i{}];", pat_t, n, n)),
                    m => return Err(format!("for_to_while mode {}", m)),
                };
                edits.replace(
                    l.whole.start..l.body.start,
                    format!(
                        "{{ let __s{n} = {e}; let mut __i{n}: usize = 0; while __i{n} < __s{n}.len() {spec} ",
                        n = n,
                        e = seq_expr,
                        spec = spec
                    ),
                );
                edits.insert(l.body.start + 1, format!(" {} __i{} += 1; ", bind, n));
                // the wrapper's closing brace must come after any `after_loop` text at the same position
                edits.insert_last(l.whole.end, " }");
                log.push(format!("R6:for->while loop {}", n));
            }
            "chain" => {
                let c = scan.chains.get(n).ok_or_else(|| format!("lost anchor: iterator chain {} not found ({} present)", n, scan.chains.len()))?;
                let spec = e["spec"].as_str().unwrap_or("");
                let head_h = e["head"].as_str().unwrap_or("");
                let pre_push = e["pre_push"].as_str().unwrap_or("");
                // `chain N flat: f` wraps what a flat_map closure returns in f(..) (any IntoIterator -> Vec of its items)
                let flat_fn = e["flat"].as_str().unwrap_or("").trim().to_string();
                let after = e["after"].as_str().unwrap_or("");
                let elem_ty = e["elem"].as_str().unwrap_or("");
                // The closure bodies stay where they are (so other edits inside them still apply); only the text around
                // them is replaced.
                enum Part { Text(String), Keep(Range<usize>) }
                let mut parts: Vec<Part> = vec![];
                let mut t = String::new();
                let is_sum = c.terminal == "sum";
                let out = format!("__out{}", n);
                if is_sum {
                    t.push_str(&format!("{{ let mut {}: usize = 0; ", out));
                } else if elem_ty.is_empty() {
                    t.push_str(&format!("{{ let mut {} = Vec::new(); ", out));
                } else {
                    t.push_str(&format!("{{ let mut {}: Vec<{}> = Vec::new(); ", out, elem_ty));
                }
                let base = &src[c.base.clone()];
                let iter_expr = if c.by_ref { format!("{}.iter()", base) } else { base.to_string() };
                t.push_str(&format!("for __e{n} in __it{n}: {it} {spec} {{ {head} let __c{n}_0 = __e{n}; ", n = n, it = iter_expr, spec = spec, head = head_h));
                let mut k = 0usize;
                let mut closers = String::new();
                let mut flat = false;
                for st in &c.stages {
                    let curv = format!("__c{}_{}", n, k);
                    let nextv = format!("__c{}_{}", n, k + 1);
                    // emits `{ let PARAM = ARG; BODY }` (body kept in place) or `f(ARG)`
                    let mut call = |t: &mut String, parts: &mut Vec<Part>, by_ref_arg: bool| -> Result<(), String> {
                        let arg = if by_ref_arg { format!("&{}", curv) } else { curv.clone() };
                        match &st.closure {
                            Some((params, body)) => {
                                if params.len() != 1 {
                                    return Err("chain: closure must take one parameter".into());
                                }
                                t.push_str(&format!("{{ let {} = {}; ", &src[params[0].clone()], arg));
                                parts.push(Part::Text(std::mem::take(t)));
                                parts.push(Part::Keep(body.clone()));
                                t.push_str(" }");
                                Ok(())
                            }
                            None => {
                                t.push_str(&format!("{}({})", &src[st.arg.clone()], arg));
                                Ok(())
                            }
                        }
                    };
                    match st.kind.as_str() {
                        "map" => {
                            t.push_str(&format!("let {} = ", nextv));
                            call(&mut t, &mut parts, false)?;
                            t.push_str("; ");
                            k += 1;
                        }
                        "filter" => {
                            t.push_str(&format!("let __k{}_{} = ", n, k));
                            call(&mut t, &mut parts, true)?;
                            t.push_str(&format!("; if __k{}_{} {{ ", n, k));
                            closers.push_str(" }");
                        }
                        "filter_map" => {
                            t.push_str(&format!("let __o{}_{} = ", n, k));
                            call(&mut t, &mut parts, false)?;
                            t.push_str(&format!("; if let Some({}) = __o{}_{} {{ ", nextv, n, k));
                            closers.push_str(" }");
                            k += 1;
                        }
                        "flat_map" => {
                            t.push_str(&format!("let mut {} = {}(", nextv, flat_fn));
                            call(&mut t, &mut parts, false)?;
                            t.push_str("); ");
                            k += 1;
                            flat = true;
                        }
                        other => return Err(format!("chain: adapter {} unsupported", other)),
                    }
                }
                let last = format!("__c{}_{}", n, k);
                t.push_str(&format!("{} ", pre_push));
                if is_sum {
                    t.push_str(&format!("{} = {} + {}; ", out, out, last));
                } else if flat {
                    t.push_str(&format!("{}.append(&mut {}); ", out, last));
                } else {
                    t.push_str(&format!("{}.push({}); ", out, last));
                }
                t.push_str(&closers);
                t.push_str(&format!(" }} {} {} }}", after, out));
                parts.push(Part::Text(t));
                let mut cursor = c.whole.start;
                let mut pending = String::new();
                for p in parts {
                    match p {
                        Part::Text(x) => pending.push_str(&x),
                        Part::Keep(r) => {
                            edits.replace(cursor..r.start, std::mem::take(&mut pending));
                            cursor = r.end;
                        }
                    }
                }
                edits.replace(cursor..c.whole.end, pending);
                log.push(format!("R2:iterator chain {} ({}{}) -> defining loop, closure bodies verbatim", n,
                    c.stages.iter().map(|s| s.kind.clone()).collect::<Vec<_>>().join("."), if is_sum { ".sum" } else { ".collect" }));
            }
            "drop_nested_fn" => {
                let name = e["text"].as_str().unwrap_or("");
                let mut done = false;
                for st in &block.stmts {
                    if let syn::Stmt::Item(syn::Item::Fn(f)) = st {
                        if f.sig.ident == name {
                            edits.replace(br(st), "");
                            done = true;
                        }
                    }
                }
                if !done {
                    return Err(format!("lost anchor: nested fn {} not found", name));
                }
                log.push(format!("R19:nested fn {} lifted out of the body (verified as its own function)", name));
            }
            "guard_try" => {
                // R13: every `E?` becomes an explicit match whose early return first asserts the given ghost condition
                // (no error accumulator created in this function is still live: it would panic on drop)
                let cond = e["text"].as_str().unwrap_or("true");
                for (start, q) in &scan.tries {
                    edits.insert(*start, "(match ");
                    edits.replace(q.clone(), format!(" {{ Ok(__v) => __v, Err(__e) => {{ proof {{ assert({}); }} return Err(__e); }} }})", cond));
                }
                if e["returns"].as_bool().unwrap_or(false) {
                    for r in &scan.returns {
                        edits.insert(r.start, format!("{{ proof {{ assert({}); }} ", cond));
                        edits.insert(r.end, " }");
                    }
                }
                log.push(format!("R13:{} `?` sites guarded", scan.tries.len()));
            }
            "match_str" => {
                // `match_str N opt`: a body that has no such match is left as it is (the proof then decides what its absence means)
                if e["opt"].as_bool().unwrap_or(false) && scan.str_matches.get(n).is_none() {
                    log.push(format!("R5:string match {} absent (opt)", n));
                    continue;
                }
                let m = scan
                    .str_matches
                    .get(n)
                    .ok_or_else(|| format!("string match {} not found ({} present)", n, scan.str_matches.len()))?;
                let var = format!("__m{}", n);
                // `match SCRUT { __mN => { if .. } }` keeps temporaries of SCRUT alive like the original match did
                edits.replace(m.head.clone(), format!("match {} {{ {} => {{ ", &src[m.scrut.clone()], var));
                edits.insert(m.end, " }");
                for (k, a) in m.arms.iter().enumerate() {
                    if a.has_guard {
                        return Err("match_str: arm outside the supported subset (R5)".into());
                    }
                    let kw = if k == 0 { "" } else { "else " };
                    let pre;
                    let mut post = String::new();
                    if !a.lits.is_empty() {
                        let cond: Vec<String> = a.lits.iter().map(|l| format!("str_eq({}, {})", var, l)).collect();
                        pre = format!("{}if {} ", kw, cond.join(" || "));
                        if !a.body_is_block {
                            edits.insert(a.body.start, "{ ");
                            post.push_str(" }");
                        }
                    } else {
                        let bind = a.bind.as_ref().map(|b| format!("let {} = {}; ", b, var)).unwrap_or_default();
                        pre = format!("{}{{ {}", kw, bind);
                        post.push_str(" }");
                    }
                    edits.replace(a.pat.start..a.body.start, pre);
                    if !post.is_empty() {
                        edits.insert(a.body.end, post);
                    }
                    if let Some(c) = &a.comma {
                        edits.replace(c.clone(), "");
                    }
                }
                log.push(format!("R5:match on str {} -> if chain", n));
            }
            "closure" => {
                let c = match scan.closures.get(n) {
                    Some(c) => c,
                    None if e["opt"].as_bool() == Some(true) => {
                        log.push(format!("R3:closure {} absent (optional)", n));
                        continue;
                    }
                    None => return Err(format!("closure {} not found ({} closures)", n, scan.closures.len())),
                };
                let header = e["header"].as_str().ok_or("closure: header missing")?;
                // guard against ordinal drift (a closure inserted or removed earlier in the body): the annotated header must name the same
                // parameters as the closure it lands on (`_` and destructuring patterns match anything); otherwise the anchor is lost
                {
                    let names = |t: &str| -> Option<Vec<String>> {
                        let a = t.find('|')?;
                        let b = t[a + 1..].find('|')? + a + 1;
                        let inner = &t[a + 1..b];
                        let mut out = vec![];
                        let mut depth = 0i32;
                        let mut cur = String::new();
                        for ch in inner.chars() {
                            match ch {
                                '(' | '[' | '<' | '{' => { depth += 1; cur.push(ch); }
                                ')' | ']' | '>' | '}' => { depth -= 1; cur.push(ch); }
                                ',' if depth == 0 => { out.push(std::mem::take(&mut cur)); }
                                _ => cur.push(ch),
                            }
                        }
                        if !cur.trim().is_empty() {
                            out.push(cur);
                        }
                        Some(out.into_iter().map(|p| p.split(':').next().unwrap_or("").trim().trim_start_matches("mut ").trim().to_string()).collect())
                    };
                    if let (Some(orig), Some(want)) = (names(&src[c.header.clone()]), names(header)) {
                        let simple = |x: &str| !x.is_empty() && x != "_" && x.chars().all(|ch| ch.is_alphanumeric() || ch == '_');
                        let bad = orig.len() != want.len() || orig.iter().zip(want.iter()).any(|(o, w)| simple(o) && simple(w) && !w.starts_with("__") && o != w);
                        if bad {
                            return Err(format!("lost anchor: closure {} has parameters ({}) but its annotation expects ({})", n, orig.join(", "), want.join(", ")));
                        }
                    }
                }
                edits.replace(c.header.clone(), format!("{} ", header));
                if !c.body_is_block {
                    edits.insert(c.body.start, "{ ");
                    edits.insert(c.body.end, " }");
                }
                log.push(format!("R3:closure {} annotated", n));
            }
            "replace" => {
                let from = e["from"].as_str().ok_or("replace: from missing")?;
                let to = e["to"].as_str().ok_or("replace: to missing")?;
                let ms = find_matches(body_text, from);
                let want = e["count"].as_u64();
                let any = e["count"].as_str() == Some("any");
                let opt = e["count"].as_str() == Some("opt");
                let nth = e["nth"].as_u64();
                let ms = if let Some(k) = nth {
                    if (k as usize) < ms.len() {
                        vec![ms[k as usize].clone()]
                    } else {
                        return Err(format!("lost anchor: `{}` has {} matches, wanted occurrence #{}", from, ms.len(), k));
                    }
                } else {
                    ms
                };
                if !(any && !ms.is_empty()) && !opt && ms.len() as u64 != want.unwrap_or(1) {
                    return Err(format!(
                        "lost anchor: `{}` matched {} times, expected {}",
                        from,
                        ms.len(),
                        if any { "≥1".to_string() } else { want.unwrap_or(1).to_string() }
                    ));
                }
                for (m, caps) in ms {
                    let mut t = to.to_string();
                    for (k, c) in caps.iter().enumerate() {
                        t = t.replace(&format!("${}", k + 1), &body_text[c.clone()]);
                    }
                    edits.replace(brange.start + m.start..brange.start + m.end, t);
                }
                log.push(format!("{}:replace `{}`", e["rule"].as_str().unwrap_or("R?"), from));
            }
            other => return Err(format!("unknown edit op `{}`", other)),
        }
    }
    if !head.is_empty() {
        edits.insert(brange.start + 1, head);
    }
    let body = edits.apply(src, brange.clone())?;
    let sr = br(sig);
    let sig_text = sig_edits.apply(src, sr.start..brange.start)?;
    Ok(json!({
        "ok": true, "kind": "fn",
        "sig": sig_text.trim(),
        "body": body,
        "nloops": scan.loops.len(),
        "nclosures": scan.closures.len(),
        "log": log,
    }))
}

fn with_comma(src: &str, r: Range<usize>) -> Range<usize> {
    let rest = &src[r.end..];
    let t = rest.trim_start();
    if t.starts_with(',') {
        r.start..(r.end + (rest.len() - t.len()) + 1)
    } else {
        r
    }
}

fn field_edits(src: &str, fields: &syn::Fields, public: bool, features: &[String], edits: &mut Edits, log: &mut Vec<String>) -> Result<(), String> {
    for f in fields.iter() {
        let whole = with_comma(src, br(f));
        if let Some(false) = attrs_cfg(&f.attrs, features)? {
            // remove field and trailing comma (handled by caller via text scan)
            edits.replace(whole.clone(), "");
            log.push(format!("D:cfg-false field {:?} removed", f.ident.as_ref().map(|i| i.to_string())));
            continue;
        }
        for a in &f.attrs {
            edits.replace(br(a), "");
        }
        if public {
            match &f.vis {
                syn::Visibility::Inherited => {
                    let at = f.ident.as_ref().map(|i| br(i).start).unwrap_or(br(&f.ty).start);
                    edits.insert(at, "pub ");
                }
                v => edits.replace(br(v), "pub"),
            }
        }
    }
    Ok(())
}

fn handle_item(src: &str, it: &syn::Item, features: &[String]) -> Result<Value, String> {
    let mut edits = Edits::new();
    let mut log = vec![];
    let whole = br(it);
    match it {
        syn::Item::Struct(s) => {
            for a in &s.attrs {
                edits.replace(br(a), "");
            }
            match &s.vis {
                syn::Visibility::Inherited => edits.insert(br(&s.struct_token).start, "pub "),
                v => edits.replace(br(v), "pub"),
            }
            field_edits(src, &s.fields, true, features, &mut edits, &mut log)?;
        }
        syn::Item::Enum(s) => {
            for a in &s.attrs {
                edits.replace(br(a), "");
            }
            match &s.vis {
                syn::Visibility::Inherited => edits.insert(br(&s.enum_token).start, "pub "),
                v => edits.replace(br(v), "pub"),
            }
            for v in &s.variants {
                if let Some(false) = attrs_cfg(&v.attrs, features)? {
                    edits.replace(with_comma(src, br(v)), "");
                    continue;
                }
                for a in &v.attrs {
                    edits.replace(br(a), "");
                }
                field_edits(src, &v.fields, false, features, &mut edits, &mut log)?;
            }
        }
        syn::Item::Type(s) => {
            for a in &s.attrs {
                edits.replace(br(a), "");
            }
            match &s.vis {
                syn::Visibility::Inherited => edits.insert(br(&s.type_token).start, "pub "),
                v => edits.replace(br(v), "pub"),
            }
        }
        syn::Item::Const(s) => {
            for a in &s.attrs {
                edits.replace(br(a), "");
            }
            match &s.vis {
                syn::Visibility::Inherited => edits.insert(br(&s.const_token).start, "pub "),
                v => edits.replace(br(v), "pub"),
            }
        }
        syn::Item::Macro(m) => {
            for a in &m.attrs {
                edits.replace(br(a), "");
            }
            log.push("R8b:macro_rules definition pasted verbatim".into());
        }
        _ => return Err("unsupported item kind".into()),
    }
    log.push("D:attributes dropped; visibility -> pub".into());
    let text = edits.apply(src, whole)?;
    // tidy `, ,` left by removed fields
    let mut t = text;
    loop {
        let n = t.replace(",\n    \n", ",\n").replace(", ,", ",");
        if n == t {
            break;
        }
        t = n;
    }
    Ok(json!({"ok": true, "kind": "item", "text": t.trim(), "log": log}))
}

fn handle(req: &Value, features: &[String], cache: &mut HashMap<String, Result<Source, String>>) -> Result<Value, String> {
    let file = req["file"].as_str().ok_or("file missing")?.to_string();
    if !cache.contains_key(&file) {
        let r = std::fs::read_to_string(&file)
            .map_err(|e| format!("read {}: {}", file, e))
            .and_then(load);
        cache.insert(file.clone(), r);
    }
    let path: Vec<String> = req["path"]
        .as_array()
        .ok_or("path missing")?
        .iter()
        .map(|v| v.as_str().unwrap_or("").to_string())
        .collect();
    let edits: Vec<Value> = req["edits"].as_array().cloned().unwrap_or_default();

    // A macro selector switches to a fresh Source made from the instantiated transcriber.
    let mut owned: Vec<Box<Source>> = vec![];
    let base: &Source = match cache.get(&file).unwrap() {
        Ok(s) => s,
        Err(e) => return Err(e.clone()),
    };
    let mut start_idx = 0;
    let mut cur_src: *const Source = base;
    for (i, sel) in path.iter().enumerate() {
        if let Some(rest) = sel.strip_prefix("macro ") {
            let (rest, def_file) = match rest.split_once(" @ ") {
                Some((r, f)) => (r, Some(f.trim().to_string())),
                None => (rest, None),
            };
            let (name, args) = rest
                .split_once('(')
                .ok_or_else(|| format!("bad macro selector `{}`", sel))?;
            let args = args.trim_end().strip_suffix(')').ok_or("macro selector must end with )")?;
            let s: &Source = unsafe { &*cur_src };
            let items = live_items(s.file.items.iter(), features);
            let text = match &def_file {
                Some(f) => {
                    let dsrc = std::fs::read_to_string(f).map_err(|e| format!("read {}: {}", f, e)).and_then(load)?;
                    let ditems = live_items(dsrc.file.items.iter(), features);
                    instantiate_macro(&ditems, &items, name.trim(), args)?
                }
                None => instantiate_macro(&items, &items, name.trim(), args)?,
            };
            let ns = Box::new(load(text)?);
            cur_src = &*ns;
            owned.push(ns);
            start_idx = i + 1;
        }
    }
    let s: &Source = unsafe { &*cur_src };
    let mut scope = Scope::Items(live_items(s.file.items.iter(), features));
    let mut found = None;
    let mut siblings: Option<Vec<String>> = None;
    for sel in &path[start_idx..] {
        // a `fn x` selector after a function selects a nested fn item declared in that function's body
        if let Some(Found::Fn { block, .. }) = &found {
            if let Some(name) = sel.strip_prefix("fn ") {
                let mut hit = None;
                for st in &block.stmts {
                    if let syn::Stmt::Item(syn::Item::Fn(f)) = st {
                        if f.sig.ident == name.trim() {
                            hit = Some(f);
                        }
                    }
                }
                match hit {
                    Some(f) => {
                        found = Some(Found::Fn { attrs: &f.attrs, sig: &f.sig, block: &f.block });
                        continue;
                    }
                    None => return Err(format!("nested fn {} not found", name)),
                }
            }
        }
        if found.is_some() {
            return Err(format!("selector `{}` after a leaf", sel));
        }
        // the methods an `impl` block defines (a trait impl that gains an override changes which code runs for the type, whether or not
        // that method is under contract): reported so that the caller can compare with what it was when the contracts were written
        if let Scope::ImplItems(items) = &scope {
            let mut names: Vec<String> = items.iter().filter_map(|it| if let syn::ImplItem::Fn(f) = it { Some(f.sig.ident.to_string()) } else { None }).collect();
            names.sort();
            siblings = Some(names);
        }
        match step(s, scope, sel, features)? {
            Ok(sc) => scope = sc,
            Err(f) => {
                found = Some(f);
                scope = Scope::Items(vec![]);
            }
        }
    }
    let mut res = match found {
        Some(Found::Fn { attrs, sig, block }) => handle_fn(&s.text, attrs, sig, block, &edits, features)?,
        Some(Found::Item(it)) => handle_item(&s.text, it, features)?,
        None => return Err("path does not end at a fn or item".into()),
    };
    if let Some(sib) = siblings {
        res["siblings"] = json!(sib);
    }
    if start_idx > 0 {
        if let Some(l) = res["log"].as_array_mut() {
            l.push(json!(format!("R8:macro instantiated: {}", path[start_idx - 1])));
        }
    }
    drop(owned);
    Ok(res)
}

fn main() {
    let mut inp = String::new();
    std::io::stdin().read_to_string(&mut inp).unwrap();
    let v: Value = serde_json::from_str(&inp).expect("bad json");
    let features: Vec<String> = v["features"]
        .as_array()
        .map(|a| a.iter().map(|x| x.as_str().unwrap_or("").to_string()).collect())
        .unwrap_or_default();
    let mut cache = HashMap::new();
    let mut results = serde_json::Map::new();
    for req in v["requests"].as_array().cloned().unwrap_or_default() {
        let id = req["id"].as_str().unwrap_or("?").to_string();
        let r = match handle(&req, &features, &mut cache) {
            Ok(v) => v,
            Err(e) => json!({"ok": false, "error": e}),
        };
        results.insert(id, r);
    }
    println!("{}", serde_json::to_string(&json!({ "results": results })).unwrap());
}
