#!/usr/bin/env python3
"""maintenance: run every semantics-preserving change under /verif/harmless against ALL property checks (on a private copy of /repo)
and record exit codes in harmless/MATRIX.json. Exit 1 on such a change is a false alarm; exit 2 is 'undecided'.
usage: tools/harmless_matrix.py [-j N] [ids..]"""
import concurrent.futures as cf, hashlib, json, os, re, shutil, subprocess, sys, tempfile
VERIF = "/verif"
args = sys.argv[1:]
jobs = 4
if "-j" in args:
    jobs = int(args[args.index("-j") + 1]); del args[args.index("-j"):args.index("-j") + 2]
tier = "quick"
if "--tier" in args:
    tier = args[args.index("--tier") + 1]; del args[args.index("--tier"):args.index("--tier") + 2]
only_props = None
if "--props" in args:
    only_props = args[args.index("--props") + 1].split(","); del args[args.index("--props"):args.index("--props") + 2]
ids = args or sorted(x for x in os.listdir(os.path.join(VERIF, "harmless")) if os.path.isdir(os.path.join(VERIF, "harmless", x)))
PROPS = [c["property_id"] for c in json.load(open(os.path.join(VERIF, "MANIFEST.json")))["checks"]]
if only_props:
    PROPS = [p for p in PROPS if p in only_props]


def run(hid):
    d = os.path.join(VERIF, "harmless", hid)
    m = tempfile.mkdtemp(prefix="hrepo_")
    try:
        subprocess.run(["rsync", "-a", "--exclude", "target", "--exclude", ".git", "/repo/", m + "/"], check=True)
        p = subprocess.run(["patch", "-p1", "-s", "-i", os.path.join(d, "patch.diff")], cwd=m, capture_output=True, text=True)
        if p.returncode != 0:
            return hid, {"applies": False}
        out = {"applies": True, "checks": {}}
        for c in PROPS:
            env = dict(os.environ, VERIF_REPO=m, VERIF_JOBS="4")
            r = subprocess.run(["./check", c, "--tier", tier], cwd=VERIF, capture_output=True, text=True, env=env)
            if r.returncode != 0:
                obl = re.findall(r"failed obligation: (.*?)  \(replay", r.stdout)
                und = re.findall(r"UNDECIDED property=\S+ (?:unit=)?(.*)", r.stdout)
                out["checks"][c] = {"exit": r.returncode, "failed_obligations": [o[:240] for o in obl[:3]], "undecided": [u[:240] for u in und[:3]]}
            else:
                out["checks"][c] = {"exit": 0}
        return hid, out
    finally:
        shutil.rmtree(m, ignore_errors=True)
        shutil.rmtree(os.path.join(VERIF, "build", "alt_" + hashlib.sha1(m.encode()).hexdigest()[:8]), ignore_errors=True)


path = os.path.join(VERIF, "harmless", "MATRIX.json" if tier == "quick" else f"MATRIX_{tier}.json")
res = json.load(open(path)) if os.path.exists(path) and args else {}
with cf.ThreadPoolExecutor(max_workers=jobs) as ex:
    for hid, out in ex.map(run, ids):
        if hid in res and res[hid].get("applies") and out.get("applies"):
            merged = dict(res[hid].get("checks", {})); merged.update(out["checks"]); out["checks"] = merged   # partial re-runs (--props) keep the other checks' results
        res[hid] = out
        bad = {k: v["exit"] for k, v in out.get("checks", {}).items() if v["exit"] != 0}
        print(hid, "applies" if out["applies"] else "NOAPPLY", bad or "all 0", flush=True)
        json.dump(res, open(path, "w"), indent=1, sort_keys=True)
