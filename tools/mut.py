#!/usr/bin/env python3
"""dev helper: apply a textual mutation to a source tree, run a command, restore.
usage: [VERIF_REPO=/tmp/copy] tools/mut.py FILE OLD NEW -- cmd...     (FILE relative to the tree; default tree /repo)
Set VERIF_REPO to a private copy of /repo when several people work at once: the extractor reads from $VERIF_REPO."""
import os, subprocess, sys
root = os.environ.get("VERIF_REPO", "/repo")
f, old, new = sys.argv[1:4]
cmd = sys.argv[5:]
p = os.path.join(root, f)
s = open(p).read()
assert s.count(old) >= 1, "pattern not found"
open(p, "w").write(s.replace(old, new, 1))
try:
    r = subprocess.run(cmd)
    print("exit", r.returncode)
finally:
    open(p, "w").write(s)
