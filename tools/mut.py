#!/usr/bin/env python3
"""dev helper: apply a textual mutation to /repo, run a check command, restore. usage: mut.py FILE OLD NEW -- cmd..."""
import subprocess, sys
f, old, new = sys.argv[1:4]
cmd = sys.argv[5:]
p = "/repo/" + f
s = open(p).read()
assert s.count(old) >= 1, "pattern not found"
open(p, "w").write(s.replace(old, new, 1))
try:
    r = subprocess.run(cmd)
    print("exit", r.returncode)
finally:
    subprocess.run(["git", "-C", "/repo", "checkout", "--", f])
