#!/bin/sh
# maintenance: re-run every registered quick check on the (clean) /repo tree so committed evidence is current
cd /verif
git -C /repo status --porcelain | grep -q . && { echo "/repo is dirty"; exit 1; }
for p in $(python3 -c "import json;print(' '.join(c['property_id'] for c in json.load(open('MANIFEST.json'))['checks']))"); do
  ./check $p --tier quick | tail -1
done
