#!/bin/sh
# maintenance: re-run every registered quick check on the (clean) /repo tree so committed evidence is current
cd /verif
python3 tools/stub_consistency.py > /dev/null || { python3 tools/stub_consistency.py | grep -v ": ok"; echo "restated contracts drifted"; exit 1; }
git -C /repo status --porcelain | grep -q . && { echo "/repo is dirty"; exit 1; }
for p in $(python3 -c "import json;print(' '.join(c['property_id'] for c in json.load(open('MANIFEST.json'))['checks']))"); do
  ./check $p --tier quick | tail -1
done
