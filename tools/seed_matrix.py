#!/usr/bin/env python3
"""maintenance: run every confirmed seeded change against its property's check (on a private copy of /repo) and
record the outcome in seeded/MATRIX.json.  usage: tools/seed_matrix.py [-j N] [seed ids..]"""
import concurrent.futures as cf, json, os, re, shutil, subprocess, sys, tempfile

VERIF = "/verif"
args = sys.argv[1:]
jobs = 5
if "-j" in args:
    jobs = int(args[args.index("-j") + 1]); del args[args.index("-j"):args.index("-j") + 2]
seeds = args or sorted(os.listdir(os.path.join(VERIF, "seeded")))
seeds = [s for s in seeds if os.path.isdir(os.path.join(VERIF, "seeded", s))]
EXTRA = {"C04": ["C05", "C03"], "C05": ["C04"], "C18": ["C10"], "C06": ["C10"], "C10": ["C06"], "C02": ["C01"], "C01": ["C02"], "C03": ["C02"], "C17": ["C02"], "C07": ["C02"], "C09": ["C02", "C10"], "C16": ["C02", "C07"], "C08": ["C02"]}


def run(seed):
    d = os.path.join(VERIF, "seeded", seed)
    prop = json.load(open(os.path.join(d, "meta.json"))).get("property", seed.split("_")[0])
    m = tempfile.mkdtemp(prefix="mrepo_")
    try:
        subprocess.run(["rsync", "-a", "--exclude", "target", "--exclude", ".git", "/repo/", m + "/"], check=True)
        p = subprocess.run(["patch", "-p1", "-s", "-i", os.path.join(d, "patch.diff")], cwd=m, capture_output=True, text=True)
        if p.returncode != 0:
            return seed, {"property": prop, "applies": False, "note": "patch no longer applies to the current tree (a later fix commit rewrote those lines)"}
        out = {"property": prop, "applies": True, "checks": {}}
        for c in [prop] + EXTRA.get(prop, []):
            env = dict(os.environ, VERIF_REPO=m, VERIF_JOBS="4")
            r = subprocess.run(["./check", c], cwd=VERIF, capture_output=True, text=True, env=env)
            obl = re.findall(r"failed obligation: (.*?)  \(replay", r.stdout)
            und = re.findall(r"UNDECIDED property=\S+ (?:unit=)?(.*)", r.stdout)
            out["checks"][c] = {"exit": r.returncode, "failed_obligations": [o[:200] for o in obl[:3]], "undecided": [u[:200] for u in und[:2]]}
        return seed, out
    finally:
        shutil.rmtree(m, ignore_errors=True)
        import hashlib
        shutil.rmtree(os.path.join(VERIF, "build", "alt_" + hashlib.sha1(m.encode()).hexdigest()[:8]), ignore_errors=True)


res = {}
path = os.path.join(VERIF, "seeded", "MATRIX.json")
if os.path.exists(path) and args:
    res = json.load(open(path))
with cf.ThreadPoolExecutor(max_workers=jobs) as ex:
    for seed, out in ex.map(run, seeds):
        res[seed] = out
        own = out.get("checks", {}).get(out["property"], {})
        print(seed, "applies" if out["applies"] else "NOAPPLY", {k: v["exit"] for k, v in out.get("checks", {}).items()}, flush=True)
json.dump(res, open(path, "w"), indent=1, sort_keys=True)
# (each run removes its own scratch directory; nothing is removed wholesale - other runs may be in flight)
