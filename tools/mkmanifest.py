#!/usr/bin/env python3
"""Regenerate MANIFEST.json from vlib/registry.py (maintenance; never run by a registered command)."""
import json, os, sys
sys.path.insert(0, os.path.dirname(os.path.dirname(os.path.abspath(__file__))))
from vlib.registry import PROPS, NOT_APPLICABLE

allp = [json.loads(l)["id"] for l in open("/verif/properties.jsonl")]
checks = []
for pid in allp:
    if pid not in PROPS:
        continue
    r = PROPS[pid]
    checks.append({
        "property_id": pid,
        "quick_cmd": f"./check {pid} --tier quick",
        "thorough_cmd": f"./check {pid} --tier thorough",
        "evidence_file": f"/verif/evidence/{pid}.json",
        "replay_cmd_template": f"./check {pid} --replay {{path}}",
        "engine": "verus-extract",
        "level_claimed": {"category": "proof", "text": r["level_text"], "design_ref": r.get("design_ref", "DESIGN.md section 6")},
        "level_note": r["level_note"],
        "technique": r.get("technique", "contract-based deductive verification (Verus) of function bodies extracted from /repo on every run"),
    })
missing = [p for p in allp if p not in PROPS and p not in NOT_APPLICABLE]
if missing:
    sys.exit(f"mkmanifest: properties neither registered nor declared not-applicable: {missing} (registry.py damaged?)")
na = [{"property_id": p, "reason": NOT_APPLICABLE.get(p, "not yet built in this session: no check is claimed (see DESIGN.md section 10 build order)")}
      for p in allp if p not in PROPS]
m = {
    "version": 1,
    "setup_cmd": "cd /verif && ./setup.sh",
    "hooks": {
        "guard": "teddriggs_darling_verif",
        "enable": "none needed: extraction reads /repo source text and the expander calls darling_core's public API; no hook commits exist",
        "baseline_off_cmd": "cd /repo && cargo test --workspace --no-fail-fast --offline",
        "source_commits": [],
        "add_only": True,
    },
    "engines": [
        {"name": "verus-extract", "path": "/verif/check", "serves_properties": [c["property_id"] for c in checks],
         "kind_free_text": "Verus 0.2026.09.13 on files composed per run from contracts in /verif/units/*.vrs and function bodies sliced from /repo by tools/extract (syn AST paths)"},
    ],
    "checks": checks,
    "not_applicable": na,
    "notes": "Exit codes of ./check: 0 all obligations discharged; 1 + VIOLATION line; 2 undecided (lost anchor, drifted signature, composed file rejected, solver limit) - never an alarm.",
}
json.dump(m, open("/verif/MANIFEST.json", "w"), indent=1)
print("checks:", [c["property_id"] for c in checks])
