#!/bin/sh
# dev: apply a patch to a private copy of /repo and run the named property checks against it.
# usage: tools/try_patch.sh <patch.diff> C01 C02 ...
P=$1; shift
M=/tmp/mrepo_$$
mkdir -p $M && rsync -a --exclude target --exclude .git /repo/ $M/ && (cd $M && patch -p1 -s < $P) || { echo "patch failed"; rm -rf $M; exit 3; }
cd /verif
for c in "$@"; do VERIF_REPO=$M ./check $c 2>&1 | grep -E "VIOLATION|UNDECIDED|tier=|KNOWN" | sed 's/replay=[^ ]*//' | cut -c1-220; done
rm -rf $M /verif/build/alt_$(python3 -c "import hashlib,sys;print(hashlib.sha1(sys.argv[1].encode()).hexdigest()[:8])" $M)
