#!/usr/bin/env python3
"""maintenance: rewrite the generated summaries in DESIGN.md (between <!-- X:begin --> / <!-- X:end --> markers, or the bare placeholder
X on first use) from seeded/MATRIX.json and harmless/MATRIX.json."""
import json, os, re
V = "/verif"
s = open(f"{V}/DESIGN.md").read()


def put(tag, text):
    global s
    block = f"<!-- {tag}:begin -->\n{text}\n<!-- {tag}:end -->"
    if f"<!-- {tag}:begin -->" in s:
        s = re.sub(rf"<!-- {tag}:begin -->.*?<!-- {tag}:end -->", lambda m: block, s, flags=re.S)
    else:
        s = s.replace("\n" + tag + "\n", "\n" + block + "\n", 1)


m = json.load(open(f"{V}/seeded/MATRIX.json"))
rows, tot = {}, {"detected": 0, "undecided": 0, "missed": 0, "n/a": 0}
for sid, v in sorted(m.items()):
    p = v["property"]
    r = rows.setdefault(p, {"detected": [], "undecided": [], "missed": [], "n/a": []})
    if not v.get("applies"):
        k = "n/a"
    else:
        k = {0: "missed", 1: "detected", 2: "undecided"}[v["checks"][p]["exit"]]
    r[k].append(sid.split("_", 1)[1])
    tot[k] += 1
cross = sorted((sid, c) for sid, v in m.items() for c, x in v.get("checks", {}).items() if c != v["property"] and x["exit"] == 1)
t = [f"Last full run: **{tot['detected']} detected (exit 1 by the property's own check), {tot['undecided']} undecided (exit 2), {tot['missed']} missed (exit 0), "
     f"{tot['n/a']} no longer applicable** (the patch does not apply since a later `fix:` commit rewrote those lines), of {sum(tot.values())}.", "",
     "| property | detected | undecided (exit 2) | missed (exit 0) |", "|---|---|---|---|"]
for p in sorted(rows):
    r = rows[p]
    t.append(f"| {p} | {' '.join(r['detected'])} | {' '.join(r['undecided'])} | {' '.join(r['missed'] + ['(' + x + ': n/a)' for x in r['n/a']])} |")
t += ["", "Alarms of a *neighbouring* property's check on these seeds (each was looked at: the change really breaks that property too - errors invented, dropped, "
      "mis-located, a panic instead of a diagnostic - unless noted in the text below): " + ", ".join(f"{a}→{b}" for a, b in cross) + "."]
put("SEEDED_SUMMARY", "\n".join(t))

hp = f"{V}/harmless/MATRIX.json"
if os.path.exists(hp):
    h = json.load(open(hp))
    n = len(h)
    alarms = sorted((k, c) for k, v in h.items() for c, x in v.get("checks", {}).items() if x["exit"] == 1)
    und = sorted((k, c) for k, v in h.items() for c, x in v.get("checks", {}).items() if x["exit"] == 2)
    clean = sum(1 for v in h.values() if all(x["exit"] == 0 for x in v.get("checks", {}).values()))
    nchecks = sum(len(v.get("checks", {})) for v in h.values())
    t = [f"Last run: {n} changes × {nchecks // max(n, 1)} checks = {nchecks} check runs: **{len(alarms)} false alarms (exit 1)**, {len(und)} undecided (exit 2) on "
         f"{len(set(k for k, _ in und))} changes, {clean} changes pass every check."]
    if alarms:
        t.append("False alarms: " + ", ".join(f"{k}→{c}" for k, c in alarms) + ".")
    if und:
        by = {}
        for k, c in und:
            by.setdefault(k, []).append(c)
        t.append("Undecided: " + "; ".join(f"{k} ({json.load(open(f'{V}/harmless/{k}/meta.json')).get('kind', '')[:60]}): {' '.join(cs)}" for k, cs in sorted(by.items())) + ".")
    put("HARMLESS_SUMMARY", "\n".join(t))
open(f"{V}/DESIGN.md", "w").write(s)
print("DESIGN.md summaries rewritten")
