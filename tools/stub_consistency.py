#!/usr/bin/env python3
"""maintenance: contracts that a unit RESTATES as external_body because the proved text lives in another unit file (which cannot be `//@include`d as stubs)
must stay text-identical to the proved contract. Compares the `ensures` clauses (comments and whitespace ignored). exit 1 on drift.
usage: tools/stub_consistency.py"""
import re, sys, os
V = os.path.dirname(os.path.dirname(os.path.abspath(__file__)))
# (file with the restated contract, impl header regex, fn name) -> (file with the proved contract, impl header regex, fn name)
PAIRS = [
    (("units/c06_derive_entry.vrs", r"impl FromMetaOptions\b", "new"), ("units/c10_receivers.vrs", r"impl FromMetaOptions\b", "new")),
    (("units/c06_derive_entry.vrs", r"impl FromAttributesOptions\b", "new"), ("units/c10_receivers.vrs", r"impl FromAttributesOptions\b", "new")),
    (("prelude/trait_impl_used_api.vrs", r"impl<'a> TraitImpl<'a>|impl TraitImpl", "used_type_params"), ("units/c19_trait_impl.vrs", r"impl<'a> TraitImpl<'a>|impl TraitImpl", "used_type_params")),
    (("prelude/trait_impl_used_api.vrs", r"impl<'a> TraitImpl<'a>|impl TraitImpl", "declared_type_params"), ("units/c19_trait_impl.vrs", r"impl<'a> TraitImpl<'a>|impl TraitImpl", "declared_type_params")),
    (("prelude/options_conversions_api.vrs", r"impl<V, F> Data<V, F>", "as_ref"), ("units/c16_body_conversion.vrs", r"impl<V, F> Data<V, F>", "as_ref")),
    (("prelude/options_conversions_api.vrs", r"impl<V, F> Data<V, F>", "map_enum_variants"), ("units/c16_body_conversion.vrs", r"impl<V, F> Data<V, F>", "map_enum_variants")),
    (("prelude/options_conversions_api.vrs", r"impl<V, F> Data<V, F>", "map_struct_fields"), ("units/c16_body_conversion.vrs", r"impl<V, F> Data<V, F>", "map_struct_fields")),
]

def ensures_of(path, impl_re, fn):
    s = open(os.path.join(V, path)).read()
    best = None
    for m in re.finditer(impl_re, s):
        k = s.find("fn " + fn, m.end())
        if k < 0:
            continue
        nxt = re.search(r"\nimpl[ <]", s[m.end():])
        if nxt and m.end() + nxt.start() < k:
            continue
        best = k
        break
    if best is None:
        return None
    tail = s[best:]
    end = re.search(r"//@body|\{\s*unimplemented!\(\)\s*\}", tail)
    head = tail[:end.start()] if end else tail[:2000]
    e = head.find("ensures")
    if e < 0:
        return ""
    txt = re.sub(r"//[^\n]*", "", head[e + len("ensures"):])
    txt = re.sub(r"\s+", "", txt).rstrip(",")
    return txt

SPEC_PAIRS = [("prelude/trait_impl_used_api.vrs", "units/c19_trait_impl.vrs", "used_oracle")]

def spec_of(path, name):
    s = open(os.path.join(V, path)).read()
    m = re.search(r"spec fn " + name + r"\b", s)
    if not m:
        return None
    depth = 0; i = s.find("{", m.end()); j = i
    while j < len(s):
        if s[j] == "{": depth += 1
        elif s[j] == "}":
            depth -= 1
            if depth == 0: break
        j += 1
    return re.sub(r"\s+", "", re.sub(r"//[^\n]*", "", s[m.start():j + 1]))

bad = 0
for fa, fb, name in SPEC_PAIRS:
    ta, tb = spec_of(fa, name), spec_of(fb, name)
    if ta is None or tb is None or ta != tb:
        print(f"stub-consistency: DRIFT spec fn {name}: {fa} vs {fb}"); bad += 1
    else:
        print(f"stub-consistency: ok spec fn {name}: {fa} == {fb}")
for a, b in PAIRS:
    ta, tb = ensures_of(*a), ensures_of(*b)
    if ta is None or tb is None:
        print(f"stub-consistency: cannot locate {a if ta is None else b}"); bad += 1
    elif ta != tb:
        print(f"stub-consistency: DRIFT {a[0]} :: {a[2]}  vs  {b[0]} :: {b[2]}\n   restated: {ta[:300]}\n   proved  : {tb[:300]}"); bad += 1
    else:
        print(f"stub-consistency: ok {a[0]} :: {a[2]} == {b[0]} :: {b[2]}")
sys.exit(1 if bad else 0)
